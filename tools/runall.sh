#!/bin/bash
# runs every claimed quick check on the current /repo tree and prints one line each
for p in $(python3 -c "import json;print(' '.join(c['property_id'] for c in json.load(open('/verif/MANIFEST.json'))['checks']))"); do
  timeout 3000 /verif/bin/gosym check $p --tier ${1:-quick} > /tmp/chk_$p.log 2>&1; echo "$p exit=$? $(tail -1 /tmp/chk_$p.log | cut -c1-150)"
done
