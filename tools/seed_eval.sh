#!/bin/bash
# usage: seed_eval.sh <PROP> <srcdir-with-patch.diff,demo_test.go,meta.json> <name>
# Confirms a seeded change in a scratch worktree (compiles, existing tests pass, demo fails with / passes
# without), stores it under /verif/seeded/<name>/, then runs the property's quick check against it the
# prescribed way: git -C /repo apply, check, git -C /repo checkout -- .  (never run two of these at once)
set -u
PROP=$1; SRC=$2; NAME=${3:-$PROP}
export GOFLAGS=-mod=mod GOPROXY=off GOSUMDB=off GOTOOLCHAIN=local
if [ -n "$(git -C /repo status --porcelain)" ]; then echo "seed_eval: /repo is not clean"; exit 3; fi
WT=/tmp/wt/confirm_$NAME
mkdir -p /tmp/wt
git -C /repo worktree remove --force $WT 2>/dev/null
git -C /repo worktree add -q --detach $WT HEAD || exit 3
PKG=$(python3 -c "import json;print(json.load(open('$SRC/meta.json')).get('demo_pkg','.'))")
cd $WT
if ! git apply $SRC/patch.diff; then echo "CONFIRM: patch does not apply"; cd /; git -C /repo worktree remove --force $WT; exit 3; fi
go build ./... || { echo "CONFIRM: does not compile"; cd /; git -C /repo worktree remove --force $WT; exit 3; }
cp $SRC/demo_test.go $WT/$PKG/zz_seeded_demo_test.go
timeout 900 go test -vet=off -count=1 -run 'TestSeededDemo' $PKG > /tmp/confirm_$NAME.with.log 2>&1; WITH=$?
git apply -R $SRC/patch.diff
timeout 900 go test -vet=off -count=1 -run 'TestSeededDemo' $PKG > /tmp/confirm_$NAME.without.log 2>&1; WITHOUT=$?
git apply $SRC/patch.diff
rm -f $WT/$PKG/zz_seeded_demo_test.go
flock /tmp/seed_suite.lock timeout 1500 go test -vet=off -count=1 -timeout 20m $PKG > /tmp/confirm_$NAME.suite.log 2>&1; SUITE=$?
echo "CONFIRM $NAME: demo-with-change exit=$WITH (want !=0), demo-without exit=$WITHOUT (want 0), existing tests of $PKG exit=$SUITE (want 0)"
cd /verif
git -C /repo worktree remove --force $WT
if [ $WITH -eq 0 ] || [ $WITHOUT -ne 0 ] || [ $SUITE -ne 0 ]; then echo "CONFIRM: NOT CONFIRMED"; exit 4; fi
mkdir -p /verif/seeded/$NAME
cp $SRC/patch.diff $SRC/demo_test.go $SRC/meta.json /verif/seeded/$NAME/
# run the check against it
git -C /repo apply /verif/seeded/$NAME/patch.diff || exit 3
GOSYM_OUT= GOSYM_REPO= timeout 3000 /verif/bin/gosym check $PROP --tier quick > /tmp/confirm_$NAME.check.log 2>&1; CHK=$?
git -C /repo checkout -- .
echo "CHECK $PROP against $NAME: exit=$CHK"
grep -m3 "VIOLATION\|INCONCLUSIVE" /tmp/confirm_$NAME.check.log
python3 - <<PY
import json
p='/verif/seeded/$NAME/meta.json'
m=json.load(open(p))
m['confirmed']={'demo_fails_with_change':True,'demo_passes_without':True,'existing_tests_pass':True,'ran':'tools/seed_eval.sh $PROP (scratch worktree, go test -run TestSeededDemo with/without; go test of $PKG)'}
m['check_result']={'cmd':'/verif/bin/gosym check $PROP --tier quick','exit':$CHK,'detected':$CHK==1}
json.dump(m,open(p,'w'),indent=1)
PY
# the evidence file of the property now describes the patched tree: the caller re-runs the check afterwards
exit 0
