#!/bin/bash
# usage: seed_dev.sh <PROP> <srcdir-with-patch.diff,demo_test.go,meta.json> <name> [tier]
# Development-time evaluation of a candidate seeded change WITHOUT touching /repo: confirms it in a
# scratch worktree (compiles, demo fails with / passes without, package tests pass) and runs the
# property's check against that worktree (GOSYM_REPO). Results under /tmp/seedres/<name>.*
# The recorded evaluation of a kept seed is still done by seed_eval.sh against /repo itself.
set -u
PROP=$1; SRC=$2; NAME=$3; TIER=${4:-quick}
BIN=${GOSYM_BIN:-/verif/bin/gosym}
export GOFLAGS=-mod=mod GOPROXY=off GOSUMDB=off GOTOOLCHAIN=local
mkdir -p /tmp/seedres /tmp/wtc
WT=/tmp/wtc/$NAME
git -C /repo worktree remove --force $WT 2>/dev/null
git -C /repo worktree add -q --detach $WT HEAD || exit 3
R=/tmp/seedres/$NAME
PKG=$(python3 -c "import json;print(json.load(open('$SRC/meta.json')).get('demo_pkg','.'))")
cd $WT
if ! git apply $SRC/patch.diff; then echo "$NAME CONFIRM: patch does not apply"; git -C /repo worktree remove --force $WT; exit 3; fi
go build ./... > $R.build.log 2>&1 || { echo "$NAME CONFIRM: does not compile"; git -C /repo worktree remove --force $WT; exit 3; }
cp $SRC/demo_test.go $WT/$PKG/zz_seeded_demo_test.go
timeout 900 go test -vet=off -count=1 -run 'TestSeededDemo' $PKG > $R.with.log 2>&1; WITH=$?
git apply -R $SRC/patch.diff
timeout 900 go test -vet=off -count=1 -run 'TestSeededDemo' $PKG > $R.without.log 2>&1; WITHOUT=$?
git apply $SRC/patch.diff
rm -f $WT/$PKG/zz_seeded_demo_test.go
flock /tmp/seed_suite.lock timeout 1500 go test -vet=off -count=1 -timeout 20m $PKG > $R.suite.log 2>&1; SUITE=$?
CONF=ok
if [ $WITH -eq 0 ] || [ $WITHOUT -ne 0 ] || [ $SUITE -ne 0 ]; then CONF=NOT-CONFIRMED; fi
GOSYM_REPO=$WT GOSYM_OUT=/tmp/seedres/out_$NAME timeout 3000 $BIN check $PROP --tier $TIER > $R.check.log 2>&1; CHK=$?
cd /
git -C /repo worktree remove --force $WT
echo "$NAME: confirm=$CONF (with=$WITH without=$WITHOUT suite=$SUITE) check-exit=$CHK $(grep -c '^VIOLATION' $R.check.log) violations; $(tail -1 $R.check.log | cut -c1-160)"
