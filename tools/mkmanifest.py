#!/usr/bin/env python3
"""Regenerates /verif/MANIFEST.json from tools/claims.json (one entry per claimed property)."""
import json
props=[json.loads(l) for l in open('/verif/properties.jsonl')]
claims=json.load(open('/verif/tools/claims.json'))
build="cd /verif/engine && GOFLAGS=-mod=mod GOPROXY=off GOSUMDB=off GOTOOLCHAIN=local go build -o /verif/bin/gosym ./cmd/gosym"
checks=[]
na=[]
for p in props:
    c=claims.get(p['id'])
    if c and c.get('claimed'):
        checks.append({
          "property_id":p['id'],
          "quick_cmd":"/verif/bin/gosym check %s --tier quick"%p['id'],
          "thorough_cmd":"/verif/bin/gosym check %s --tier thorough"%p['id'],
          "evidence_file":"/verif/evidence/%s.json"%p['id'],
          "replay_cmd_template":"/verif/bin/gosym replay %s {path}"%p['id'],
          "engine":"gosym",
          "level_claimed":{"category":"model_checking","text":c['text'],"design_ref":c.get('design_ref','DESIGN.md section 4 '+p['id'])},
          "level_note":c['note'],
          "technique":c.get('technique',"bounded symbolic execution of the real Go SSA (gosym) with SMT (z3) deciding every branch and assertion; counterexamples replayed natively"),
        })
    else:
        na.append({"property_id":p['id'],"reason":(c or {}).get('reason',"harness not built yet in this session; see DESIGN.md section 4 for the planned slice")})
m={
 "version":1,
 "setup_cmd": build,
 "hooks":{"guard":"verif","enable":"none needed: harness sources are injected with go/packages Overlay (engine) and go test -overlay (native replay); no file of /repo is modified","baseline_off_cmd":"cd /repo && go test -mod=mod -json -vet=off -count=1 -timeout 25m ./...","source_commits":[],"add_only":True},
 "engines":[{"name":"gosym","path":"/verif/engine","serves_properties":[c['property_id'] for c in checks],"kind_free_text":"forking symbolic interpreter for go/ssa (x/tools v0.29.0) over the real /repo sources; SMT back end z3 5.1.0 (z3-new -in), one long-lived process per worker; counterexamples replayed natively with go test -overlay"}],
 "checks":checks,
 "not_applicable":na,
 "notes":"Exit codes: 0 holds within the stated bounds; 1 natively reproduced violation (VIOLATION line); 2 inconclusive (solver unknown, budget, vacuity, harness does not build, engine/native disagreement) and never prints a VIOLATION line. Genuine defects repaired in /repo are listed as fixed in known_findings.json."
}
json.dump(m,open('/verif/MANIFEST.json','w'),indent=1)
print("claimed:",[c['property_id'] for c in checks])
