#!/bin/bash
# Runs every claimed thorough check once against a snapshot of /repo HEAD (GOSYM_REPO), writing to
# GOSYM_OUT, and prints one line per property. Meant for `vp run --with-repo`: results are for
# deciding whether the registered thorough bounds run clean, they are not evidence.
export GOFLAGS=-mod=mod GOPROXY=off GOSUMDB=off GOTOOLCHAIN=local
REPO=${VP_RUN_REPO:-/repo}
HERE=$(pwd)
( cd $HERE/engine && go build -o $HERE/bin/gosym ./cmd/gosym ) || exit 3
mkdir -p $HERE/thorough_out
for p in ${@:-C01 C02 C03 C04 C05 C06 C07 C08 C09 C10 C11 C12 C13 C14 C15 C16 C17 C18 C19 C20}; do
  t0=$(date +%s)
  GOSYM_REPO=$REPO GOSYM_HARNESS=$HERE/harness GOSYM_OUT=$HERE/thorough_out timeout 10800 $HERE/bin/gosym check $p --tier thorough > $HERE/thorough_out/$p.log 2>&1
  echo "$p exit=$? $(( $(date +%s) - t0 ))s $(tail -1 $HERE/thorough_out/$p.log | cut -c1-170)"
done
