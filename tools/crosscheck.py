#!/usr/bin/env python3
"""Differential re-check of a gosym SMT transcript (GOSYM_SMTLOG) on other solvers.

usage: crosscheck.py <transcript> [solver ...]     solvers: cvc5, z3 (4.8.12), z3-new
The transcript holds every command gosym sent to its back end (z3-new) and, as comments, the
answers it got.  The check-sat answers of the other solvers must be the same sequence; models
(get-value) are not compared.  Any '(error' line counts as a disagreement.
"""
import re, subprocess, sys

def main():
    path = sys.argv[1]
    solvers = sys.argv[2:] or ["cvc5", "z3"]
    cmds, want = [], []
    pending = False
    for line in open(path):
        if line.startswith("; -> "):
            if pending:
                want.append(line[5:].strip().strip("[]"))
                pending = False
            continue
        if line.startswith("(get-value") or line.startswith("(echo") or line.startswith("(set-option :timeout"):
            continue
        if line.startswith("(check-sat"):
            pending = True
        cmds.append(line)
    ok = True
    for s in solvers:
        argv = {"cvc5": ["cvc5", "--incremental", "--lang=smt2"], "z3": ["z3", "-in"], "z3-new": ["z3-new", "-in"]}[s]
        text = "".join(cmds)
        if s == "cvc5":
            text = "(set-logic ALL)\n" + text.replace("(set-option :produce-models true)\n", "")
        p = subprocess.run(argv, input=text, capture_output=True, text=True, timeout=3600)
        out = [l.strip() for l in p.stdout.splitlines()]
        errs = [l for l in out if l.startswith("(error")]
        got = [l for l in out if l in ("sat", "unsat", "unknown")]
        diff = [(i, w, g) for i, (w, g) in enumerate(zip(want, got)) if w != g and g != "unknown"]
        unk = sum(1 for g in got if g == "unknown")
        status = "agree" if not diff and not errs and len(got) == len(want) else "DISAGREE"
        if status != "agree":
            ok = False
        print(f"{s}: {status}: {len(want)} check-sat in transcript, {len(got)} answered, {unk} unknown, {len(diff)} different, {len(errs)} error lines")
        for d in diff[:5]:
            print("   query #%d: gosym back end said %s, %s says %s" % (d[0], d[1], s, d[2]))
        for e in errs[:3]:
            print("   " + e)
    sys.exit(0 if ok else 1)

main()
