package encryptcookie

// C20 — encrypted cookies: handlers see authentic plaintext, clients only ciphertext.
// AES-GCM is replaced by an ideal AEAD (engine only; natively the real cipher runs): Seal returns
// fresh symbolic bytes and records (key, nonce, ciphertext, plaintext); Open succeeds exactly for
// recorded triples. Everything around it — base64, key-length checks, nonce split, cookie
// rewriting while visiting — is the real code.

import (
	"time"
	"crypto/cipher"
	"encoding/base64"
	"errors"

	"github.com/gofiber/fiber/v3"
	"github.com/valyala/fasthttp"
)

type vSealRec struct {
	key, nonce, ct, pt string
}

var vSealLog []vSealRec
var vSealN int

type vBlock struct{ key string }

func (b *vBlock) BlockSize() int          { return 16 }
func (b *vBlock) Encrypt(dst, src []byte) { panic("ideal block: not used") }
func (b *vBlock) Decrypt(dst, src []byte) { panic("ideal block: not used") }

type vAEAD struct{ key string }

func (a *vAEAD) NonceSize() int { return 12 }
func (a *vAEAD) Overhead() int  { return 16 }
func (a *vAEAD) Seal(dst, nonce, plaintext, _ []byte) []byte {
	vSealN++
	// an ideal AEAD never repeats a ciphertext: distinct concrete bytes per call (their value is
	// irrelevant to the plumbing under check and keeps base64 of the ciphertext concrete)
	ct := make([]byte, len(plaintext)+16)
	for k := range ct {
		ct[k] = byte(vSealN*53 + k*7 + 1)
	}
	vSealLog = append(vSealLog, vSealRec{a.key, string(nonce), string(ct), string(plaintext)})
	return append(dst, ct...)
}
func (a *vAEAD) Open(dst, nonce, ciphertext, _ []byte) ([]byte, error) {
	for _, r := range vSealLog {
		if r.key == a.key && r.nonce == string(nonce) && r.ct == string(ciphertext) {
			return append(dst, r.pt...), nil
		}
	}
	return nil, errors.New("cipher: message authentication failed")
}

func vIdealBlock(key []byte) (cipher.Block, error) { return &vBlock{key: string(key)}, nil }
func vIdealGCM(b cipher.Block) (cipher.AEAD, error) {
	return &vAEAD{key: b.(*vBlock).key}, nil
}

var vKey16 = base64.StdEncoding.EncodeToString([]byte("0123456789abcdef"))
var vKey32 = base64.StdEncoding.EncodeToString([]byte("0123456789abcdef0123456789ABCDEF"))
var vKeyOther = base64.StdEncoding.EncodeToString([]byte("fedcba9876543210"))

func vMkApp(key string, setA, setX *string, seenA, seenB, seenX *string) *fiber.App {
	vStub("html.EscapeString=identity")
	vStub("fasthttp.normalizePath=skip")
	vStub("rand=concrete")
	app := fiber.New()
	app.Use(New(Config{Key: key, Except: []string{"x"}}))
	app.Get("/set", func(c fiber.Ctx) error {
		c.Cookie(&fiber.Cookie{Name: "a", Value: *setA})
		c.Cookie(&fiber.Cookie{Name: "x", Value: *setX})
		// a name that differs from the excepted one only in letter case is a different cookie
		c.Cookie(&fiber.Cookie{Name: "X", Value: "capx"})
		// a cookie with an expiry in the past still carries its value to the client
		c.Cookie(&fiber.Cookie{Name: "old", Value: "oldv", Expires: time.Unix(1000, 0)})
		if vSetFails {
			// cookies set before a handler fails are still response cookies
			return fiber.NewError(fiber.StatusForbidden, "denied")
		}
		return nil
	})
	app.Get("/get", func(c fiber.Ctx) error {
		*seenA = c.Cookies("a")
		*seenB = c.Cookies("b")
		*seenX = c.Cookies("x")
		vSeenCapX = c.Cookies("X")
		return nil
	})
	return app
}

var vSeenCapX string
var vSetFails bool

func vRespCookie(fctx *fasthttp.RequestCtx, name string) string {
	var ck fasthttp.Cookie
	ck.SetKey(name)
	if !fctx.Response.Header.Cookie(&ck) {
		return ""
	}
	return string(ck.Value())
}

// VH_C20_cookies: case = tamper*2 + keyIdx
// tamper: 0 unchanged, 1 one character replaced, 2 truncated, 3 extended, 4 issued under another key,
// 5 arbitrary short string, 6 unchanged with a forged plain cookie b placed after / before it.
func VH_C20_cookies(caseID int) {
	tamper := caseID / 2
	key := []string{vKey16, vKey32}[caseID%2]
	vSealLog = nil
	vSealN = 0
	plain := vString("plain", vLen("plen", 0, 2))
	for i := 0; i < len(plain); i++ {
		// cookie-safe plaintext (the middleware does not promise to transport arbitrary bytes through a header)
		vAssume(plain[i] > 0x20)
		vAssume(plain[i] < 0x7f)
		vAssume(plain[i] != ';')
		vAssume(plain[i] != '"')
		vAssume(plain[i] != ',')
		vAssume(plain[i] != '\\')
	}
	xval := "plainx"
	var seenA, seenB, seenX string
	app := vMkApp(key, &plain, &xval, &seenA, &seenB, &seenX)

	// 1. the server issues the cookies (the issuing handler may end with an error)
	vSetFails = vChoice("setfails", 2) == 1
	f1 := &fasthttp.RequestCtx{}
	f1.Request.Header.SetMethod("GET")
	f1.Request.SetRequestURI("/set")
	app.Handler()(f1)
	issued := vRespCookie(f1, "a")
	issuedX := vRespCookie(f1, "x")
	vAssert(issuedX == "plainx", "excepted-cookie-unchanged-to-client")
	vAssert(issued != "", "cookie-issued")
	vAssert(vRespCookie(f1, "X") != "capx", "case-variant-of-excepted-name-is-encrypted")
	vAssert(vRespCookie(f1, "old") != "oldv", "expiring-cookie-value-is-encrypted")
	// the client sees an encryptor output: base64 of nonce || ciphertext of the ideal AEAD
	raw, derr := base64.StdEncoding.DecodeString(issued)
	vAssert(derr == nil, "issued-is-base64")
	vAssert(len(raw) == 12+len(plain)+16, "issued-is-ciphertext-sized")
	vAssert(len(vSealLog) == 3 && string(raw[12:]) == vSealLog[0].ct, "issued-is-encryptor-output")
	vAssert(issued != plain, "issued-is-not-the-plaintext")

	// 2. the client sends a (possibly altered) value back
	sent := issued
	switch tamper {
	case 1:
		pos := []int{0, len(issued) / 2, len(issued) - 2, len(issued) - 1}[vChoice("pos", 4)]
		b := []byte(issued)
		nb := vByte("newbyte")
		vAssume(nb != b[pos])
		vAssume(nb > 0x20)
		vAssume(nb < 0x7f)
		vAssume(nb != ';')
		vAssume(nb != '"')
		vAssume(nb != ',')
		vAssume(nb != '\\')
		b[pos] = nb
		sent = string(b)
	case 2:
		cut := []int{1, 4, len(issued) - 4}[vChoice("cut", 3)]
		sent = issued[:len(issued)-cut]
	case 3:
		sent = issued + "AAAA"
	case 4:
		var p2, x2, s1, s2, s3 string
		p2 = plain
		x2 = "x"
		other := vMkApp(vKeyOther, &p2, &x2, &s1, &s2, &s3)
		f := &fasthttp.RequestCtx{}
		f.Request.Header.SetMethod("GET")
		f.Request.SetRequestURI("/set")
		other.Handler()(f)
		sent = vRespCookie(f, "a")
	case 5:
		sent = vString("arb", vLen("arblen", 0, 3))
		for i := 0; i < len(sent); i++ {
			vAssume(sent[i] > 0x20)
			vAssume(sent[i] < 0x7f)
			vAssume(sent[i] != ';')
			vAssume(sent[i] != '"')
			vAssume(sent[i] != ',')
			vAssume(sent[i] != '\\')
			vAssume(sent[i] != '=')
		}
	}
	f2 := &fasthttp.RequestCtx{}
	f2.Request.Header.SetMethod("GET")
	f2.Request.SetRequestURI("/get")
	order := 0
	if tamper == 6 {
		order = 1 + vChoice("order", 2)
	}
	if tamper == 6 {
		// an invalid cookie in front of the others
		f2.Request.Header.SetCookie("junk", "not-a-ciphertext")
	}
	if order == 2 {
		f2.Request.Header.SetCookie("b", "admin")
	}
	f2.Request.Header.SetCookie("a", sent)
	f2.Request.Header.SetCookie("x", "plainx2")
	f2.Request.Header.SetCookie("X", "forged")
	if order == 1 {
		f2.Request.Header.SetCookie("b", "admin")
	}
	app.Handler()(f2)

	// 3. what the handler saw
	sentRaw, serr := base64.StdEncoding.DecodeString(sent)
	same := serr == nil && string(sentRaw) == string(raw)
	if same {
		vReach("authentic")
		vAssert(seenA == plain, "authentic-cookie-decrypted")
	} else {
		vReach("tampered")
		vAssert(seenA == "", "tampered-cookie-empty")
	}
	vAssert(seenX == "plainx2", "excepted-cookie-unchanged-to-handler")
	vAssert(vSeenCapX == "", "forged-case-variant-of-excepted-name-empty")
	if order != 0 {
		vAssert(seenB == "", "forged-plain-cookie-empty")
	}
}
