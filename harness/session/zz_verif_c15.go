package session

// C15 — sessions: persistent, isolated, expiring, and never adopting a client-chosen id.
// A history of requests by clients that present no id, an id issued earlier, or a forged id;
// a reference model (id -> data, idle deadline, absolute deadline) says what each request must see.

import (
	"strconv"
	"time"

	"github.com/gofiber/fiber/v3"
	"github.com/valyala/fasthttp"
)

type vSessModel struct {
	data     map[string]string
	deadline int64 // idle deadline (virtual seconds)
	absDead  int64 // absolute deadline (0 = none)
}

const (
	vIdle = 4
	vAbs  = 5 // a session kept alive by activity (gaps 3+3) still ends
)

type vC15World struct {
	store   *Store
	withAbs bool
	model   map[string]*vSessModel
	issued  []string
	now     int64
}

func (w *vC15World) live(id string) *vSessModel {
	m := w.model[id]
	if m == nil || w.now >= m.deadline || (m.absDead != 0 && w.now > m.absDead) {
		return nil
	}
	return m
}

func (w *vC15World) fresh() *vSessModel {
	m := &vSessModel{data: map[string]string{}}
	if w.withAbs {
		m.absDead = w.now + vAbs
	}
	return m
}

func (w *vC15World) remember(id string, m *vSessModel) {
	m.deadline = w.now + vIdle
	w.model[id] = m
	for _, x := range w.issued {
		if x == id {
			return
		}
	}
	w.issued = append(w.issued, id)
}

// vC15Check: what the handler sees at the start of the request.
func (w *vC15World) check(sess *Session, present string) *vSessModel {
	id := sess.ID()
	m := w.live(present)
	if present != "" && m != nil {
		vReach("resumed")
		vAssert(id == present, "live-id-resumed")
		vAssert(!sess.Fresh(), "resumed-not-fresh")
		for key, want := range m.data {
			got, _ := sess.Get(key).(string)
			vAssert(got == want, "data-persisted")
		}
		for _, key := range sess.Keys() {
			if ks, ok := key.(string); ok {
				_, has := m.data[ks]
				vAssert(has, "no-foreign-key")
			}
		}
		return m
	}
	vReach("fresh")
	if mm := w.model[present]; present != "" && mm != nil {
		vReach("expired")
		if w.now < mm.deadline {
			vReach("abs-expired")
		}
	}
	vAssert(sess.Fresh(), "unknown-or-dead-id-gives-fresh-session")
	vAssert(id != present || present == "", "client-chosen-id-not-adopted")
	vAssert(len(id) > 3 && id[:3] == "sid", "server-generated-id")
	n := 0
	for _, key := range sess.Keys() {
		if _, ok := key.(string); ok {
			n++
		}
	}
	vAssert(n == 0, "fresh-session-empty")
	return w.fresh()
}

// vC15Op applies one handler operation to the session and the model; returns the model of the
// session the handler now holds (nil after destroy).
func (w *vC15World) op(sess *Session, m *vSessModel, op int, tag string, destroy func() error) *vSessModel {
	oldID := sess.ID()
	switch op {
	case 0: // read only
	case 1:
		v := "v" + vTok1("val"+tag)
		sess.Set("k", v)
		m.data["k"] = v
	case 2:
		sess.Delete("k")
		delete(m.data, "k")
	case 3:
		vAssert(destroy() == nil, "destroy")
		delete(w.model, oldID)
		m = nil
	case 4:
		vAssert(sess.Regenerate() == nil, "regenerate")
		delete(w.model, oldID)
		vAssert(sess.ID() != oldID, "regenerate-new-id")
		vAssert(sess.Fresh(), "regenerate-fresh")
	case 5:
		vAssert(sess.Reset() == nil, "reset")
		delete(w.model, oldID)
		vAssert(sess.ID() != oldID, "reset-new-id")
		m = w.fresh()
	}
	if op >= 3 {
		// the previous id no longer yields data
		vReach("old-id-checked")
		_, gerr := w.store.GetByID(oldID)
		vAssert(gerr != nil, "old-id-dead")
	}
	return m
}

func vC15Request(source int, present string) *fasthttp.RequestCtx {
	fctx := &fasthttp.RequestCtx{}
	fctx.Request.Header.SetMethod("GET")
	uri := "/"
	if present != "" {
		switch source {
		case 0:
			fctx.Request.Header.SetCookie("session_id", present)
		case 1:
			fctx.Request.Header.Set("X-Sess", present)
		case 2:
			uri = "/?sess=" + present
		}
	}
	fctx.Request.SetRequestURI(uri)
	return fctx
}

func vC15Config(source int, withAbs bool) Config {
	nid := 0
	cfg := Config{IdleTimeout: vIdle * time.Second, KeyGenerator: func() string { nid++; return "sid" + strconv.Itoa(nid) }}
	switch source {
	case 1:
		cfg.KeyLookup = "header:X-Sess"
	case 2:
		cfg.KeyLookup = "query:sess"
	}
	if withAbs {
		cfg.AbsoluteTimeout = vAbs * time.Second
	}
	return cfg
}

func (w *vC15World) choosePresent(ss string) string {
	switch pc := vChoice("present"+ss, 3); {
	case pc == 1 && len(w.issued) > 0:
		return w.issued[vChoice("which"+ss, len(w.issued))]
	case pc == 2:
		return "zz" + vTok1("forged"+ss)
	}
	return ""
}

func (w *vC15World) advance(ss string) {
	gap := []int{0, 3, 5}[vChoice("gap"+ss, 3)]
	vAdvance(gap)
	w.now += int64(gap)
}

// VH_C15_store: a history of k requests through the Store API.
// case = absTimeout*8 + source*2 + (k-2); source 0 cookie, 1 header, 2 query.
// Each request: Get, check, op, Save, and (first two requests) a second op + Save on the same object.
func VH_C15_store(caseID int) {
	withAbs := caseID/8 == 1
	source := (caseID / 2) % 4
	k := 2 + caseID%2
	vStub("html.EscapeString=identity")
	vStub("fasthttp.normalizePath=skip")
	store := NewStore(vC15Config(source, withAbs))
	app := fiber.New()
	w := &vC15World{store: store, withAbs: withAbs, model: map[string]*vSessModel{}}
	for step := 0; step < k; step++ {
		ss := strconv.Itoa(step)
		if step > 0 {
			w.advance(ss)
		}
		present := w.choosePresent(ss)
		c := app.AcquireCtx(vC15Request(source, present))
		sess, err := store.Get(c)
		vAssert(err == nil, "store-get")
		if err != nil {
			return
		}
		m := w.check(sess, present)
		op1 := vChoice("op"+ss, 6)
		rotated := op1 >= 3
		if mm := w.model[present]; present != "" && mm != nil && w.live(present) == nil && w.now < mm.deadline {
			// the store itself rotated the id of a session past its absolute deadline (the request
			// still carries the old cookie): as unspecified as a rotation by the handler
			rotated = true
		}
		m = w.op(sess, m, op1, ss, sess.Destroy)
		if m != nil {
			vAssert(sess.Save() == nil, "save")
			w.remember(sess.ID(), m)
			// a second operation on the saved session in the same request
			if step+2 < k+1 && step < 2 {
				if op2 := vChoice("op2"+ss, 4); op2 > 0 {
					rotated = true
					m = w.op(sess, m, op2+2, ss+"b", sess.Destroy)
					if m != nil {
						vAssert(sess.Save() == nil, "save2")
						w.remember(sess.ID(), m)
					}
				}
			}
		}
		// a second lookup in the same request sees the same session (what it should see after the id
		// was rotated in this very request is not specified: left out)
		if m != nil && !rotated && vChoice("again"+ss, 2) == 1 {
			vReach("second-get")
			sess2, err2 := store.Get(c)
			vAssert(err2 == nil, "second-get")
			if err2 == nil {
				vAssert(sess2.ID() == sess.ID(), "second-get-same-id")
				vAssert(sess2.Fresh() == sess.Fresh(), "second-get-same-freshness")
				for key, want := range m.data {
					got, _ := sess2.Get(key).(string)
					vAssert(got == want, "second-get-same-data")
				}
				vAssert(sess2.Save() == nil, "second-save")
				w.remember(sess2.ID(), m)
				sess2.Release()
			}
		}
		sess.Release()
		app.ReleaseCtx(c)
	}
}

// VH_C15_mw: the same histories through the middleware (auto-save at the end of the request).
// case as VH_C15_store. The Set-Cookie / header the response carries must name the session's id.
func VH_C15_mw(caseID int) {
	withAbs := caseID/8 == 1
	source := (caseID / 2) % 4
	k := 2 + caseID%2
	vStub("html.EscapeString=identity")
	vStub("fasthttp.normalizePath=skip")
	handler, store := NewWithStore(vC15Config(source, withAbs))
	app := fiber.New()
	w := &vC15World{store: store, withAbs: withAbs, model: map[string]*vSessModel{}}
	present, ss := "", ""
	var after *vSessModel
	var afterID string
	ran := false
	app.Use(handler)
	app.Get("/", func(c fiber.Ctx) error {
		ran = true
		mw := FromContext(c)
		vAssert(mw != nil, "middleware-in-context")
		sess := mw.Session
		m := w.check(sess, present)
		after = w.op(sess, m, vChoice("op"+ss, 6), ss, mw.Destroy)
		afterID = sess.ID()
		if k == 2 && vChoice("herr"+ss, 2) == 1 {
			// the handler fails after changing the session: the change is saved all the same
			vReach("handler-error")
			return fiber.ErrUnauthorized
		}
		return nil
	})
	h := app.Handler()
	for step := 0; step < k; step++ {
		ss = strconv.Itoa(step)
		if step > 0 {
			w.advance(ss)
		}
		present = w.choosePresent(ss)
		fctx := vC15Request(source, present)
		ran, after = false, nil
		h(fctx)
		vAssert(ran, "handler-ran")
		if after != nil {
			w.remember(afterID, after)
			// the id the client is told is the session's id
			told := ""
			switch source {
			case 0, 2:
				var ck fasthttp.Cookie
				ck.SetKey("session_id")
				if source == 0 && fctx.Response.Header.Cookie(&ck) {
					told = string(ck.Value())
				}
			case 1:
				told = string(fctx.Response.Header.Peek("X-Sess"))
			}
			if source != 2 {
				vReach("told")
				vAssert(told == afterID, "client-told-session-id")
			}
		}
	}
}

func vTok1(name string) string {
	b := vByte(name)
	vAssume(vOr(vAnd(b >= 'a', b <= 'z'), vAnd(b >= '0', b <= '9')))
	return string([]byte{b})
}
