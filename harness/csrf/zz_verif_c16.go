package csrf

// C16 — CSRF: unsafe requests pass only with a live issued token from an allowed origin.

import (
	"strconv"
	"time"

	"github.com/gofiber/fiber/v3"
	"github.com/gofiber/fiber/v3/middleware/session"
	"github.com/valyala/fasthttp"
)

type vCsrfCfg struct {
	trusted   []string // TrustedOrigins
	singleUse bool
	stub      bool // external storage stub (with fault injection) instead of the memory store
	session   bool // tokens kept in the session store (Config.Session)
	sessOnly  bool // CookieSessionOnly (the cookie has no expiry; the stored token still has)
}

var vC16Catalogue = []vCsrfCfg{
	/*0*/ {},
	/*1*/ {trusted: []string{"https://t.io"}},
	/*2*/ {trusted: []string{"https://*.a.io"}},
	/*3*/ {singleUse: true},
	/*4*/ {stub: true},
	/*5*/ {trusted: []string{"http://*.a.io", "https://t.io"}, singleUse: true},
	/*6*/ {session: true},
	/*7*/ {session: true, singleUse: true},
	/*8*/ {sessOnly: true},
}

type vCsrfStore struct {
	data   map[string][]byte
	exp    map[string]int64
	faults bool
}

func (s *vCsrfStore) Get(key string) ([]byte, error) {
	if s.faults && vChoice("fault-get", 2) == 1 {
		return nil, fiber.ErrInternalServerError
	}
	if e, ok := s.exp[key]; ok && e != 0 && e <= vNow() {
		return nil, nil
	}
	return s.data[key], nil
}
func (s *vCsrfStore) Set(key string, val []byte, ttl time.Duration) error {
	s.data[key] = append([]byte(nil), val...)
	s.exp[key] = 0
	if ttl > 0 {
		s.exp[key] = vNow() + int64(ttl/time.Second)
	}
	return nil
}
func (s *vCsrfStore) Delete(key string) error { delete(s.data, key); delete(s.exp, key); return nil }
func (s *vCsrfStore) Reset() error           { s.data, s.exp = map[string][]byte{}, map[string]int64{}; return nil }
func (s *vCsrfStore) Close() error           { return nil }

func vHostBytes(name string, n int) string {
	s := vString(name, n)
	for i := 0; i < len(s); i++ {
		c := s[i]
		vAssume(vOr(vOr(vAnd(c >= 'a', c <= 'z'), vAnd(c >= '0', c <= '9')), vOr(c == '.', c == '-')))
	}
	return s
}

func vHasSuffix(s, suf string) bool { return len(s) >= len(suf) && s[len(s)-len(suf):] == suf }

// vOriginAllowed: same origin, exact trusted origin, or wildcard entry (same scheme, host = label(s).domain).
func vOriginAllowed(cc *vCsrfCfg, scheme, host, reqScheme, reqHost string) bool {
	ok := vAnd(scheme == reqScheme, host == reqHost)
	for _, t := range cc.trusted {
		// t = scheme://[*.]domain
		ts, rest := "", ""
		for i := 0; i+2 < len(t); i++ {
			if t[i:i+3] == "://" {
				ts, rest = t[:i], t[i+3:]
				break
			}
		}
		if ts != scheme {
			continue
		}
		if len(rest) > 2 && rest[:2] == "*." {
			ok = vOr(ok, vHasSuffix(host, rest[1:]))
		} else {
			ok = vOr(ok, host == rest)
		}
	}
	return ok
}

// VH_C16_unsafe: case = focus*100 + cfgIndex*8 + originKind*2 + schemeHTTPS
// originKind 0: no Origin header, 1: "null", 2: symbolic Origin, 3: symbolic Referer.
// focus 0: token lifecycle (time gap, earlier use, cookie/header token choices) with the given origin kind;
// focus 1: origin policy (valid live token, symbolic Origin/Referer).
func VH_C16_unsafe(caseID int) {
	focus := caseID / 100
	caseID %= 100
	cc := &vC16Catalogue[caseID/8]
	originKind := (caseID / 2) % 4
	https := caseID%2 == 1
	ntok := 0
	cfg := Config{TrustedOrigins: cc.trusted, SingleUseToken: cc.singleUse, IdleTimeout: 10 * time.Second,
		KeyGenerator: func() string { ntok++; return "tok" + strconv.Itoa(ntok) }}
	cfg.CookieSessionOnly = cc.sessOnly
	var store *vCsrfStore
	if cc.stub {
		store = &vCsrfStore{data: map[string][]byte{}, exp: map[string]int64{}}
		cfg.Storage = store
	}
	if cc.session {
		nsid := 0
		cfg.Session = session.NewStore(session.Config{KeyGenerator: func() string { nsid++; return "sid" + strconv.Itoa(nsid) }})
	}
	sessCookie := ""
	vStub("html.EscapeString=identity")
	vStub("fasthttp.normalizePath=skip")
	app := fiber.New()
	app.Use(New(cfg))
	ran := 0
	app.All("/", func(c fiber.Ctx) error { ran++; return c.SendStatus(200) })
	app.Post("/logout", func(c fiber.Ctx) error {
		h := HandlerFromContext(c)
		if h == nil {
			return c.SendStatus(500)
		}
		return h.DeleteToken(c)
	})

	target := "/"
	do := func(method string, hdr [][2]string, cookie string) *fasthttp.RequestCtx {
		fctx := &fasthttp.RequestCtx{}
		fctx.Request.Header.SetMethod(method)
		fctx.Request.SetRequestURI(target)
		fctx.Request.Header.SetHost("h.io")
		if https {
			fctx.Request.Header.Set("X-Forwarded-Proto", "https")
		}
		for _, h := range hdr {
			fctx.Request.Header.Set(h[0], h[1])
		}
		if cookie != "" {
			fctx.Request.Header.SetCookie("csrf_", cookie)
		}
		if sessCookie != "" {
			fctx.Request.Header.SetCookie("session_id", sessCookie)
		}
		app.Handler()(fctx)
		// the browser keeps the session cookie
		var sc fasthttp.Cookie
		sc.SetKey("session_id")
		if fctx.Response.Header.Cookie(&sc) && len(sc.Value()) > 0 {
			sessCookie = string(sc.Value())
		}
		return fctx
	}
	// 1. a safe request issues a token
	f1 := do("GET", nil, "")
	vAssert(f1.Response.StatusCode() == 200, "safe-method-passes")
	var ck fasthttp.Cookie
	ck.SetKey("csrf_")
	vAssert(f1.Response.Header.Cookie(&ck), "safe-method-sets-cookie")
	issued := string(ck.Value())
	vAssert(issued == "tok1", "issued-token")

	// 2. time passes; the token may be consumed / deleted first
	gap := 0
	pre := 0
	if focus == 0 {
		gap = []int{0, 9, 10, 12}[vChoice("gap", 4)]
		if cc.session && gap == 10 {
			// the session-backed token carries a wall-clock deadline that is still valid in the very
			// instant it is reached; the boundary instant is left out for this backend
			gap = 11
		}
		pre = vChoice("pre", 3) // 1: the token is used once before; 2: the token is deleted (logout)
	}
	if cc.session {
		vAdvanceReal(gap) // this backend reads time.Now: a native replay has to wait
	} else {
		vAdvance(gap)
	}
	live := gap < 10
	if pre >= 1 {
		sch := "http"
		if https {
			sch = "https"
		}
		if pre == 2 {
			target = "/logout"
		}
		fp := do("POST", [][2]string{{"X-Csrf-Token", issued}, {"Origin", sch + "://h.io"}}, issued)
		target = "/"
		if live {
			vAssert(fp.Response.StatusCode() == 200, "valid-token-accepted")
			if cc.singleUse || pre == 2 {
				// consumed, or deleted by the application: never valid again
				live = false
				vReach("token-removed")
			}
		}
	}
	if cc.stub {
		store.faults = true
	}

	// 3. the unsafe request under test
	tokChoice := func(name string) string {
		if focus == 1 {
			return issued
		}
		switch vChoice(name, 3) {
		case 1:
			return issued
		case 2:
			return "zz" + vHostBytes(name+"forged", 1)
		}
		return ""
	}
	cookieTok := tokChoice("cookietok")
	headerTok := tokChoice("headertok")
	var hdr [][2]string
	if headerTok != "" {
		hdr = append(hdr, [2]string{"X-Csrf-Token", headerTok})
	}
	scheme := "http"
	if https {
		scheme = "https"
	}
	oScheme, oHost := "", ""
	rScheme, rHost := "", ""
	hasOrigin, hasReferer := false, false
	switch originKind {
	case 1:
		hdr = append(hdr, [2]string{"Origin", "null"})
	case 2, 3:
		hasOrigin = originKind == 2
		if hasOrigin {
			oScheme = []string{"http", "https"}[vChoice("oscheme", 2)]
			oHost = vHostBytes("ohost", vLen("ohostlen", 4, 6)) + []string{"", ":8443"}[vChoice("oport", 2)]
			hdr = append(hdr, [2]string{"Origin", oScheme + "://" + oHost})
		} else {
			hasReferer = true
			rScheme = []string{"http", "https"}[vChoice("rscheme", 2)]
			// exact trusted entries: longer look-alike hosts, no path; otherwise a 4-byte host and a
			// path long enough to spell a trusted suffix
			hasExact := false
			for _, t := range cc.trusted {
				if len(t) > 10 && t[8:10] != "*." && t[7:9] != "*." {
					hasExact = true
				}
			}
			var path string
			if hasExact && vChoice("lookalike", 2) == 1 {
				// (a port is part of the origin: a trusted host on another port is another origin)
				rHost = vHostBytes("rhost", 6) + []string{"", ":8443"}[vChoice("rport", 2)]
			} else {
				rHost = vHostBytes("rhost", 4) + []string{"", ":8443"}[vChoice("rport4", 2)]
				path = vHostBytes("rpath", []int{0, 5}[vChoice("rpathlen", 2)])
			}
			for i := 0; i < len(path); i++ {
				vAssume(vOr(path[i] == '.', vAnd(path[i] >= 'a', path[i] <= 'z')))
			}
			hdr = append(hdr, [2]string{"Referer", rScheme + "://" + rHost + "/" + path})
		}
	}
	before := ran
	f3 := do("POST", hdr, cookieTok)
	reached := ran > before

	// oracle
	originOK := true
	if hasOrigin {
		originOK = vOriginAllowed(cc, oScheme, oHost, scheme, "h.io")
	} else if https {
		// no (usable) Origin on https: the Referer decides
		if hasReferer {
			originOK = vOriginAllowed(cc, rScheme, rHost, scheme, "h.io")
		} else {
			originOK = false
		}
	}
	tokenOK := live && headerTok == issued && cookieTok == issued
	if reached {
		vReach("reached")
		vAssert(originOK, "reached-only-from-allowed-origin")
		vAssert(tokenOK, "reached-only-with-live-issued-token")
	} else {
		vReach("rejected")
		vAssert(f3.Response.StatusCode() == fiber.StatusForbidden, "rejected-403")
	}
}
