package idempotency

// C17 — idempotency keys: the handler runs at most once, everyone gets the same answer.

import (
	"errors"
	"strconv"
	"time"

	"github.com/gofiber/fiber/v3"
	"github.com/valyala/fasthttp"
)

var errVFault = errors.New("injected fault")

// vStore is an external storage with injectable faults; every call is a scheduling point.
type vStore struct {
	data   map[string][]byte
	faults bool
	nGet   [8]int
}

// vFaultName gives every fault decision a name that is unique per thread and call number, so that
// a native replay can look it up whatever the global order.
func vFaultName(kind string, counter *[8]int) string {
	t := vThreadID()
	counter[t]++
	return kind + "-t" + strconv.Itoa(t) + "-" + strconv.Itoa(counter[t])
}

func (s *vStore) Get(key string) ([]byte, error) {
	vYield("storage.Get")
	if s.faults && vChoice(vFaultName("fault-get", &s.nGet), 2) == 1 {
		return nil, errVFault
	}
	return s.data[key], nil
}
func (s *vStore) Set(key string, val []byte, _ time.Duration) error {
	vYield("storage.Set")
	s.data[key] = append([]byte(nil), val...)
	return nil
}
func (s *vStore) Delete(key string) error { delete(s.data, key); return nil }
func (s *vStore) Reset() error           { s.data = map[string][]byte{}; return nil }
func (s *vStore) Close() error           { return nil }

// vLocker is a distributed-lock style Locker: Lock may fail, Unlock releases the key whoever calls it.
type vLocker struct {
	held   map[string]bool
	faults bool
	nLock  [8]int
}

func (l *vLocker) Lock(key string) error {
	vYield("lock.Lock")
	if l.faults && vChoice(vFaultName("fault-lock", &l.nLock), 2) == 1 {
		return errVFault
	}
	vWaitUntil(func() bool { return !l.held[key] })
	l.held[key] = true
	return nil
}
func (l *vLocker) Unlock(key string) error {
	l.held[key] = false
	vYield("lock.Unlock")
	return nil
}

const vKeyA = "11111111-1111-1111-1111-111111111111"
const vKeyB = "22222222-2222-2222-2222-222222222222"

type vC17Res struct {
	status  int
	body    string
	hdr     string
	ran     bool // the protected handler ran for this request
	isError bool
}

// VH_C17_concurrent: case = lastKey*16 + lockKind*8 + faultKind*2 + (n-2)   (lastKey: 0 same key, 1 other key, 2 no key)
// lockKind 0: MemoryLock (real), 1: stub locker; faultKind 0 none, 1 storage faults, 2 lock faults (stub locker only).
func VH_C17_concurrent(caseID int) {
	lastKey := caseID / 16
	caseID %= 16
	stubLock := caseID/8 == 1
	faultKind := (caseID / 2) % 4
	n := 2 + caseID%2
	store := &vStore{data: map[string][]byte{}, faults: faultKind == 1}
	cfg := Config{Storage: store, KeepResponseHeaders: []string{"X-Kept"}}
	if stubLock {
		cfg.Lock = &vLocker{held: map[string]bool{}, faults: faultKind == 2}
	}
	vStub("html.EscapeString=identity")
	vStub("fasthttp.normalizePath=skip")
	app := fiber.New(fiber.Config{ErrorHandler: func(c fiber.Ctx, err error) error { return c.SendStatus(500) }})
	app.Use(New(cfg))
	execs := map[string]int{}
	seq := 0
	res := make([]vC17Res, n)
	app.Post("/:i", func(c fiber.Ctx) error {
		idx := int(c.Params("i")[0] - '0')
		key := c.Get("X-Idempotency-Key")
		seq++
		mine := seq
		res[idx].ran = true
		// the outcome of each execution is arbitrary (symbolic body byte and kept-header byte)
		bb := vByte("body" + strconv.Itoa(mine))
		hb := vByte("kept" + strconv.Itoa(mine))
		vAssume(hb > 0x20)
		vAssume(hb < 0x7f)
		c.Set("X-Kept", string([]byte{'k', hb}))
		// a kept header may be repeated
		c.Response().Header.Add("X-Kept", string([]byte{'m', hb}))
		c.Set("X-Dropped", "d"+strconv.Itoa(mine))
		vYield("handler")
		execs[key]++
		return c.Status(201).Send([]byte{'b', bb})
	})
	keys := make([]string, n)
	for k := 0; k < n; k++ {
		keys[k] = vKeyA
		if k == n-1 && lastKey == 1 {
			keys[k] = vKeyB
		} else if k == n-1 && lastKey == 2 {
			keys[k] = ""
		}
	}
	vSched(true)
	if n > 2 {
		vPreemptBound(2)
	}
	for k := 0; k < n; k++ {
		k := k
		vSpawn(func() {
			fctx := &fasthttp.RequestCtx{}
			fctx.Request.Header.SetMethod("POST")
			fctx.Request.SetRequestURI("/" + strconv.Itoa(k))
			if keys[k] != "" {
				fctx.Request.Header.Set("X-Idempotency-Key", keys[k])
			}
			app.Handler()(fctx)
			res[k].status = fctx.Response.StatusCode()
			res[k].body = string(fctx.Response.Body())
			res[k].hdr = ""
			for _, v := range fctx.Response.Header.PeekAll("X-Kept") {
				res[k].hdr += string(v) + "|"
			}
			res[k].isError = res[k].status == 500
		})
	}
	vJoin()
	vSched(false)

	// per key: the handler completed successfully at most once
	for key, cnt := range execs {
		if key != "" {
			vAssert(cnt <= 1, "handler-at-most-once")
		}
	}
	// every answered duplicate has the same status/body/kept header as the execution
	first := -1
	for k := 0; k < n; k++ {
		if keys[k] == vKeyA && !res[k].isError {
			if first < 0 {
				first = k
			} else {
				vAssert(res[k].status == res[first].status, "same-status")
				vAssert(res[k].body == res[first].body, "same-body")
				vAssert(res[k].hdr == res[first].hdr, "same-kept-header")
			}
		}
	}
	// other keys / no key run the handler normally
	for k := 0; k < n; k++ {
		if keys[k] != vKeyA && faultKind == 0 {
			vAssert(res[k].ran && res[k].status == 201, "other-key-unaffected")
		}
	}
	if faultKind == 0 {
		vAssert(execs[vKeyA] == 1, "handler-ran-once")
	}
	// a request whose lookup or lock acquisition failed got an error and did not run the handler
	for k := 0; k < n; k++ {
		if res[k].isError {
			vAssert(!res[k].ran, "failed-request-did-not-run-handler")
		}
	}
	vReach("joined")
}
