package fiber

import "github.com/valyala/fasthttp"

// VH_smoke_arith exercises the engine without fiber.
func VH_smoke_arith(n int) {
	a := vByte("a")
	b := vByte("b")
	vAssume(a < 100 && b < 100)
	s := int(a) + int(b)
	if s == 150 {
		vReach("s150")
		vAssert(a >= 51, "a>=51")
	} else {
		vReach("other")
	}
	vAssert(s < 199, "sum-bound")
	str := vString("p", 3)
	if str == "abc" {
		vReach("abc")
	}
	if len(str) > 0 && str[0] == '/' {
		vReach("slash")
		vAssert(str != "xbc", "impossible")
	}
}

// VH_smoke_fail must produce a violation (vacuity guard for the pipeline).
func VH_smoke_fail(n int) {
	a := vByte("a")
	vAssert(a != 77, "a-not-77")
}

// VH_smoke_route dispatches a symbolic path through a real app.
func VH_smoke_route(n int) {
	vStub("html.EscapeString=identity")
	app := New()
	ran := false
	got := ""
	app.Get("/u/:id", func(c Ctx) error {
		ran = true
		got = c.Params("id")
		return nil
	})
	app.startupProcess()
	p := vString("path", 4)
	vAssume(p[0] == '/' && p[1] != '/')
	for i := 0; i < len(p); i++ {
		vAssume(p[i] > 0x20 && p[i] < 0x7f && p[i] != '?' && p[i] != '#' && p[i] != '%')
	}
	fctx := &fasthttp.RequestCtx{}
	fctx.Request.Header.SetMethod("GET")
	fctx.Request.SetRequestURI(p)
	app.Handler()(fctx)
	if ran {
		vReach("ran")
		vAssert(got != "", "nonempty")
		vAssert(p[:3] == "/u/" || p[:3] == "/U/", "prefix")
	} else {
		vReach("notran")
		vAssert(fctx.Response.StatusCode() == 404, "404")
	}
}
