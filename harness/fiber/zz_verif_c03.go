package fiber

// C03 — documented pattern syntax matches what it says and captures what was put in;
// RoutePatternMatch agrees with dispatch.

type vDelimPattern struct {
	toks   []vTok
	maxVal int // maximal value length per parameter
	lens   []int
}

var vStarTok = vTok{kind: vStar}
var vPlusTok = vTok{kind: vPlus}

// Every parameter is followed by the end of the pattern or a literal starting with '/', '-' or '.'.
var vC03Catalogue = []vDelimPattern{
	/* 0*/ {toks: []vTok{vL("/"), vN("a")}, lens: []int{1, 2, 3, 4}},
	/* 1*/ {toks: []vTok{vL("/a/"), vN("x")}, lens: []int{2, 3, 4, 5}},
	/* 2*/ {toks: []vTok{vL("/a/"), vO("x")}, lens: []int{1, 2, 3, 4, 5}},
	/* 3*/ {toks: []vTok{vL("/a/"), vStarTok}, lens: []int{1, 2, 3, 4, 5}},
	/* 4*/ {toks: []vTok{vL("/a/"), vPlusTok}, lens: []int{2, 3, 4, 5}},
	/* 5*/ {toks: []vTok{vL("/ab/"), vN("x")}, lens: []int{3, 4, 5, 6}},
	/* 6*/ {toks: []vTok{vL("/ab/"), vO("x")}, lens: []int{3, 4, 5, 6}},
	/* 7*/ {toks: []vTok{vL("/"), vN("a"), vL("/"), vN("b")}, lens: []int{2, 3, 4, 5}},
	/* 8*/ {toks: []vTok{vL("/"), vN("a"), vL("-"), vN("b")}, lens: []int{3, 4, 5}},
	/* 9*/ {toks: []vTok{vL("/"), vN("a"), vL(".x")}, lens: []int{3, 4, 5}},
	/*10*/ {toks: []vTok{vL("/"), vN("a"), vL("/b/"), vO("c")}, lens: []int{3, 4, 5, 6}},
	/*11*/ {toks: []vTok{vL("/"), vStarTok, vL("/z")}, lens: []int{2, 3, 4, 5}},
	/*12*/ {toks: []vTok{vL("/"), vPlusTok, vL("-"), vN("b")}, lens: []int{3, 4, 5, 6}},
	/*13*/ {toks: []vTok{vL("/a/"), vStarTok, vL("/b/"), vStarTok}, lens: []int{5, 6, 7}},
	/*14*/ {toks: []vTok{vL("/"), vO("a")}, lens: []int{1, 2, 3}},
	/*15*/ {toks: []vTok{vL("/"), vStarTok}, lens: []int{1, 2, 3, 4}},
	/*16*/ {toks: []vTok{vL("/"), vN("a"), vL("/")}, lens: []int{2, 3, 4}},
	/*17*/ {toks: []vTok{vL("/A/"), vN("Xy")}, lens: []int{3, 4, 5}},
	/*18*/ {toks: []vTok{vL("/a/"), vO("x"), vL("/")}, lens: []int{2, 3, 4, 5}},
	/*19*/ {toks: []vTok{vL("/api/"), vN("v"), vL("/u/"), vO("id")}, lens: []int{6, 7, 8, 9}},
	// greedy parameters whose delimiter occurs several times in one later literal
	/*20*/ {toks: []vTok{vL("/"), vStarTok, vL("/"), vN("a"), vL("/b/"), vN("c")}, lens: []int{5, 6, 7, 8}},
	/*21*/ {toks: []vTok{vL("/f/"), vPlusTok, vL("/"), vN("id"), vL("/m/"), vN("k")}, lens: []int{8, 9, 10}},
	/*22*/ {toks: []vTok{vL("/"), vStarTok, vL("-"), vN("a"), vL("--"), vN("b")}, lens: []int{5, 6, 7}},
	/*23*/ {toks: []vTok{vL("/"), vPlusTok, vL("/x/y/"), vStarTok}, lens: []int{6, 7, 8}},
	/*24*/ {toks: []vTok{vL("/"), vStarTok, vL(".a.b")}, lens: []int{5, 6, 7}},
	// a greedy parameter followed by a multi-byte literal that occurs again after another parameter
	/*25*/ {toks: []vTok{vL("/"), vStarTok, vL("/ab/"), vN("k"), vL("/ab")}, lens: []int{9, 10, 11}},
	/*26*/ {toks: []vTok{vL("/f/"), vPlusTok, vL("-me-"), vN("k"), vL("-me-"), vO("z")}, lens: []int{13, 14}},
	/*27*/ {toks: []vTok{vL("/"), vStarTok, vL("/to/"), vN("k"), vL("/to/end")}, lens: []int{13, 14}},
	// two greedy parameters, the literal after the first recurs behind the second
	/*28*/ {toks: []vTok{vL("/"), vStarTok, vL("-"), vStarTok, vL("-a")}, lens: []int{4, 5, 6}},
	/*29*/ {toks: []vTok{vL("/f/"), vStarTok, vL("/raw/"), vPlusTok, vL("/raw")}, lens: []int{13, 14}},
	/*30*/ {toks: []vTok{vL("/"), vPlusTok, vL(".d."), vPlusTok, vL(".d")}, lens: []int{8, 9}},
}

func (p *vDelimPattern) text() string {
	q := vPattern{toks: p.toks}
	return q.text()
}

func (p *vDelimPattern) paramNames() []string {
	q := vPattern{toks: p.toks}
	return q.paramNames()
}

// vCountSub counts (possibly overlapping) occurrences of d in s without branching on bytes.
func vCountSub(s, d string) int {
	n := 0
	for k := 0; k+len(d) <= len(s); k++ {
		n += vB2I(s[k:k+len(d)] == d)
	}
	return n
}

func vCountConcrete(s, d string) int {
	n := 0
	for k := 0; k+len(d) <= len(s); k++ {
		if s[k:k+len(d)] == d {
			n++
		}
	}
	return n
}

// vPctEncode renders one (possibly symbolic) byte as %XX with upper-case hex digits.
func vPctEncode(b byte) string {
	hex := func(n byte) byte { return n + '0' + byte(vB2I(n > 9))*7 }
	return string([]byte{'%', hex(b >> 4), hex(b & 15)})
}

func vTrimRightSlash(s string) string {
	if len(s) > 1 {
		return vTrimSlashes(s)
	}
	return s
}

// VH_C03_complete: case = patternIndex*8 + cfgIndex. Builds a path from symbolic values and
// requires the route to match and report exactly those values.
func VH_C03_complete(caseID int) {
	pat := &vC03Catalogue[caseID/8]
	cfg := vCfgs[caseID%8]
	app := vNewApp(cfg)
	names := pat.paramNames()
	ran := false
	var got [8]string
	app.Get(pat.text(), func(c Ctx) error {
		ran = true
		for i, n := range names {
			got[i] = c.Params(n)
		}
		return nil
	})
	app.startupProcess()

	fold := func(s string) string {
		if cfg.cs {
			return s
		}
		return vLower(s)
	}
	// draw the values
	var vals [8]string
	k := 0
	path := ""
	for ti, t := range pat.toks {
		if t.kind == vLit {
			lit := t.lit
			if !cfg.cs {
				// the client may spell literal letters in either case
				b := make([]byte, len(lit))
				for j := 0; j < len(lit); j++ {
					c := lit[j]
					if (c >= 'a' && c <= 'z') || (c >= 'A' && c <= 'Z') {
						x := vByte("case")
						vAssume(vOr(x == c, x == c^0x20))
						b[j] = x
					} else {
						b[j] = c
					}
				}
				lit = string(b)
			}
			path += lit
			continue
		}
		lo := 1
		if t.kind == vNamedOpt || t.kind == vStar {
			lo = 0
		}
		n := vLen("vlen"+string(rune('0'+ti)), lo, 2)
		v := vString("val"+string(rune('0'+ti)), n)
		for j := 0; j < len(v); j++ {
			c := v[j]
			vAssume(c > 0x20)
			vAssume(c < 0x7f)
			vAssume(c != '?')
			vAssume(c != '#')
			vAssume(c != '%')
			if t.kind == vNamed || t.kind == vNamedOpt {
				vAssume(c != '/')
			}
		}
		vals[k] = v
		k++
		path += v
	}
	// side condition: no additional occurrence of a literal that follows a parameter
	// (nor of that literal without its trailing slashes)
	for ti, t := range pat.toks {
		if t.kind != vLit || ti == 0 || pat.toks[ti-1].kind == vLit {
			continue
		}
		for _, d := range []string{t.lit, vTrimRightSlash(t.lit)} {
			want := 0
			for _, u := range pat.toks {
				if u.kind == vLit {
					want += vCountConcrete(fold(u.lit), fold(d))
				}
			}
			vAssume(vCountSub(fold(path), fold(d)) == want)
		}
	}
	// Without StrictRouting a trailing slash of the path is ignored, so a final value ending in '/'
	// is indistinguishable from a shorter one: such values are outside the statement.
	if !cfg.strict && len(path) > 1 && pat.toks[len(pat.toks)-1].kind != vLit {
		vAssume(path[len(path)-1] != '/')
	}
	// optional trailing slash when routing is not strict
	if !cfg.strict && vChoice("trailing", 2) == 1 {
		path += "/"
	}
	if len(path) > 1 {
		vAssume(path[1] != '/')
	}
	// known finding: a route whose first literal is exactly "/x/" and that also matches the
	// 2-byte request "/x" lives in the wrong lookup bucket (W1)
	vKnown("C03-K1-short-request-bucket", len(path) < 3)

	wire := path
	if cfg.unescape {
		// the client may percent-encode one byte (never the leading slash)
		if pos := vChoice("encpos", len(path)); pos > 0 {
			wire = path[:pos] + vPctEncode(path[pos]) + path[pos+1:]
			vReach("encoded")
		}
	}
	fctx := vDo(app, "GET", wire)
	_ = fctx
	vAssert(ran, "matches")
	if !ran {
		return
	}
	vReach("matched")
	for i := 0; i < k; i++ {
		vAssert(got[i] == vals[i], "captures")
	}
}

// VH_C03_rpm: RoutePatternMatch(p, pattern, cfg) <=> dispatching p reaches the handler.
func VH_C03_rpm(caseID int) {
	pat := &vC03Catalogue[caseID/8]
	cfg := vCfgs[caseID%8]
	app := vNewApp(cfg)
	ran := false
	app.Get(pat.text(), func(c Ctx) error {
		ran = true
		return nil
	})
	app.startupProcess()
	n := pat.lens[vChoice("plen", len(pat.lens))]
	p := vString("path", n)
	vWirePath(p, false)
	vKnown("C03-K1-short-request-bucket", len(p) < 3)
	rpm := RoutePatternMatch(p, pat.text(), Config{CaseSensitive: cfg.cs, StrictRouting: cfg.strict, UnescapePath: cfg.unescape})
	vDo(app, "GET", p)
	if ran {
		vReach("ran")
	} else {
		vReach("not-ran")
	}
	vAssert(rpm == ran, "rpm-agrees")
}
