package fiber

// C10 — forwarding headers affect IP/host/scheme only when the peer is a trusted proxy.

import (
	"net"

	"github.com/valyala/fasthttp"
)

type vProxyCfg struct {
	proxies   []string
	loopback  bool
	private   bool
	linkLocal bool
	validate  bool
	v6        bool // peer is a 16-byte address (otherwise 4 bytes)
	mapped    bool // 16-byte v4-mapped peer (::ffff:a.b.c.d)
	donor     bool // the Config is taken from another app (App.Config()) whose proxy list differed
}

var vC10Catalogue = []vProxyCfg{
	/* 0*/ {},
	/* 1*/ {proxies: []string{"10.1.2.3"}},
	/* 2*/ {proxies: []string{"10.0.0.0/8"}},
	/* 3*/ {proxies: []string{"192.168.7.0/24", "8.8.8.8"}, validate: true},
	/* 4*/ {proxies: []string{"172.20.0.2/31"}},
	/* 5*/ {loopback: true},
	/* 6*/ {private: true},
	/* 7*/ {linkLocal: true},
	/* 8*/ {private: true, loopback: true, proxies: []string{"1.1.1.1"}, validate: true},
	/* 9*/ {proxies: []string{"10.0.0.0/8"}, mapped: true},
	/*10*/ {private: true, v6: true},
	/*11*/ {linkLocal: true, v6: true},
	/*12*/ {loopback: true, proxies: []string{"2001:db8::/32"}, v6: true},
	/*13*/ {linkLocal: true, mapped: true},
	/*14*/ {proxies: []string{"2001:db8::1"}, v6: true},
	/*15*/ {donor: true},
	/*16*/ {donor: true, proxies: []string{"10.0.0.0/8"}},
}

// vIn4 reports whether the 4-byte address a is inside base/bits.
func vIn4(a []byte, b0, b1, b2, b3 byte, bits int) bool {
	base := [4]byte{b0, b1, b2, b3}
	ok := true
	for k := 0; k < 4; k++ {
		nb := bits - 8*k
		if nb <= 0 {
			break
		}
		var mask byte = 0xff
		if nb < 8 {
			mask = byte(0xff << (8 - nb))
		}
		ok = vAnd(ok, a[k]&mask == base[k]&mask)
	}
	return ok
}

// vTrusted4 is the independent reading of the configuration for an IPv4 peer.
func vTrusted4(pc *vProxyCfg, a []byte, ci int) bool {
	t := false
	if pc.loopback {
		t = vOr(t, a[0] == 127)
	}
	if pc.private {
		t = vOr(t, vOr(a[0] == 10, vOr(vAnd(a[0] == 172, a[1]&0xf0 == 16), vAnd(a[0] == 192, a[1] == 168))))
	}
	if pc.linkLocal {
		t = vOr(t, vAnd(a[0] == 169, a[1] == 254))
	}
	switch ci {
	case 1:
		t = vOr(t, vIn4(a, 10, 1, 2, 3, 32))
	case 2, 9, 16:
		t = vOr(t, vIn4(a, 10, 0, 0, 0, 8))
	case 3:
		t = vOr(t, vOr(vIn4(a, 192, 168, 7, 0, 24), vIn4(a, 8, 8, 8, 8, 32)))
	case 4:
		t = vOr(t, vIn4(a, 172, 20, 0, 2, 31))
	case 8:
		t = vOr(t, vIn4(a, 1, 1, 1, 1, 32))
	}
	return t
}

// vTrusted6 is the independent reading for a genuine (non v4-mapped) IPv6 peer.
func vTrusted6(pc *vProxyCfg, a []byte, ci int) bool {
	t := false
	if pc.loopback {
		lb := a[15] == 1
		for k := 0; k < 15; k++ {
			lb = vAnd(lb, a[k] == 0)
		}
		t = vOr(t, lb)
	}
	if pc.private {
		t = vOr(t, a[0]&0xfe == 0xfc)
	}
	if pc.linkLocal {
		t = vOr(t, vAnd(a[0] == 0xfe, a[1]&0xc0 == 0x80))
	}
	if ci == 12 {
		t = vOr(t, vAnd(vAnd(a[0] == 0x20, a[1] == 0x01), vAnd(a[2] == 0x0d, a[3] == 0xb8)))
	}
	if ci == 14 {
		// a bare address is that one host
		eq := vAnd(vAnd(a[0] == 0x20, a[1] == 0x01), vAnd(a[2] == 0x0d, a[3] == 0xb8))
		for k := 4; k < 15; k++ {
			eq = vAnd(eq, a[k] == 0)
		}
		t = vOr(t, vAnd(eq, a[15] == 1))
	}
	return t
}

type vC10Obs struct {
	trusted              bool
	ip, host, hostname   string
	scheme, baseURL      string
	secure               bool
}

func vC10Probe(app *App, peer net.IP, hdrs [][2]string, tls bool) vC10Obs {
	var o vC10Obs
	fctx := &fasthttp.RequestCtx{}
	fctx.Request.Header.SetMethod("GET")
	fctx.Request.SetRequestURI("/")
	fctx.Request.Header.SetHost("h.io:80")
	for _, h := range hdrs {
		fctx.Request.Header.Set(h[0], h[1])
	}
	fctx.SetRemoteAddr(&net.TCPAddr{IP: peer, Port: 4000})
	c := app.AcquireCtx(fctx)
	o.trusted = c.IsProxyTrusted()
	o.ip = c.IP()
	o.host = c.Host()
	o.hostname = c.Hostname()
	o.scheme = c.Scheme()
	o.baseURL = c.BaseURL()
	o.secure = c.Secure()
	app.ReleaseCtx(c)
	return o
}

func vIsIPish(s string) bool {
	// syntactic sanity: non-empty, only hex digits, '.', ':' and at least one separator
	if len(s) == 0 {
		return false
	}
	sep := false
	for i := 0; i < len(s); i++ {
		c := s[i]
		isHex := (c >= '0' && c <= '9') || (c >= 'a' && c <= 'f') || (c >= 'A' && c <= 'F')
		if c == '.' || c == ':' {
			sep = true
		} else if !isHex {
			return false
		}
	}
	return sep
}

// VH_C10_trust: case = cfgIndex*4 + headerKind
// (0: X-Forwarded-Host + proxy header, 1: X-Forwarded-Proto, 2: X-Forwarded-Ssl / X-Url-Scheme, 3: X-Forwarded-Protocol + Host list).
func VH_C10_trust(caseID int) {
	ci := caseID / 4
	kind := caseID % 4
	pc := &vC10Catalogue[ci]
	cfg := Config{TrustProxy: true, ProxyHeader: "X-Real-Ip", EnableIPValidation: pc.validate,
		TrustProxyConfig: TrustProxyConfig{Proxies: pc.proxies, Loopback: pc.loopback, Private: pc.private, LinkLocal: pc.linkLocal}}
	if pc.donor {
		// a second application built from the first one's configuration with another proxy list
		donorCfg := cfg
		donorCfg.TrustProxyConfig.Proxies = []string{"10.1.2.3", "192.168.7.0/24"}
		cfg = New(donorCfg).Config()
		cfg.TrustProxyConfig.Proxies = pc.proxies
	}
	app := New(cfg)

	var peer net.IP
	var a4 []byte
	switch {
	case pc.mapped:
		a4 = vBytes("peer", 4)
		peer = net.IP{0, 0, 0, 0, 0, 0, 0, 0, 0, 0, 0xff, 0xff, a4[0], a4[1], a4[2], a4[3]}
	case pc.v6:
		p := vBytes("peer", 4)
		// symbolic leading bytes and last byte, zeros in between (keeps the rendering cheap)
		peer = net.IP{p[0], p[1], p[2], 0, 0, 0, 0, 0, 0, 0, 0, 0, 0, 0, 0, p[3]}
		if kind == 3 {
			peer = net.IP{p[0], p[1], 0x0d, 0xb8, 0, 0, 0, 0, 0, 0, 0, 0, 0, 0, p[2], p[3]}
		}
		// exclude v4-mapped / all-zero prefixes that net.IP treats as IPv4
		vAssume(p[0] != 0)
	default:
		a4 = vBytes("peer", 4)
		peer = net.IP(a4)
	}

	val := vString("fwd", vLen("fwdlen", 1, 3))
	for i := 0; i < len(val); i++ {
		vAssume(val[i] > 0x20)
		vAssume(val[i] < 0x7f)
	}
	var hdrs [][2]string
	switch kind {
	case 0:
		hdrs = [][2]string{{"X-Forwarded-Host", val}, {"X-Real-Ip", "9.9.9.9"}}
	case 1:
		hdrs = [][2]string{{"X-Forwarded-Proto", val}}
	case 2:
		if vChoice("sslhdr", 2) == 0 {
			hdrs = [][2]string{{"X-Forwarded-Ssl", "on"}}
		} else {
			hdrs = [][2]string{{"X-Url-Scheme", val}}
		}
	case 3:
		hdrs = [][2]string{{"X-Forwarded-Protocol", "https"}, {"X-Forwarded-Host", "a.io, b.io"}, {"X-Real-Ip", val}}
	}

	// earlier requests from other peers were served by the same pooled context
	// (the last one is a loopback peer: trusted under some configurations, untrusted under others)
	warm := []net.IP{{8, 8, 8, 8}, {127, 0, 0, 1}}
	for _, w := range warm {
		_ = vC10Probe(app, w, nil, false)
	}
	with := vC10Probe(app, peer, hdrs, false)
	without := vC10Probe(app, peer, nil, false)

	// (a) the trust decision
	var want bool
	if a4 != nil {
		want = vTrusted4(pc, a4, ci)
	} else {
		want = vTrusted6(pc, peer, ci)
	}
	vAssert(with.trusted == want, "trust-decision")
	vAssert(without.trusted == want, "trust-decision-stable")

	if !with.trusted {
		vReach("untrusted")
		// (b) non-interference: forwarding headers change nothing
		vAssert(with.ip == without.ip, "ip-unaffected")
		vAssert(with.host == without.host, "host-unaffected")
		vAssert(with.hostname == without.hostname, "hostname-unaffected")
		vAssert(with.scheme == without.scheme, "scheme-unaffected")
		vAssert(with.baseURL == without.baseURL, "baseurl-unaffected")
		vAssert(with.secure == without.secure, "secure-unaffected")
		vAssert(with.host == "h.io:80", "host-from-host-header")
		vAssert(with.scheme == "http", "scheme-from-connection")
	} else {
		vReach("trusted")
		// (c) documented forwarded values
		switch kind {
		case 0:
			wantHost := val
			for i := 0; i < len(val); i++ {
				if val[i] == ',' {
					wantHost = val[:i]
					break
				}
			}
			vAssert(with.host == wantHost, "forwarded-host")
			vAssert(with.ip == "9.9.9.9", "forwarded-ip")
		case 1:
			wantScheme := val
			for i := 0; i < len(val); i++ {
				if val[i] == ',' {
					wantScheme = val[:i]
					break
				}
			}
			vAssert(with.scheme == wantScheme, "forwarded-proto")
		case 2:
			if len(hdrs) == 1 && hdrs[0][0] == "X-Forwarded-Ssl" {
				vAssert(with.scheme == "https", "forwarded-ssl")
			} else {
				vAssert(with.scheme == val, "url-scheme")
			}
		case 3:
			vAssert(with.scheme == "https", "forwarded-protocol")
			vAssert(with.host == "a.io", "forwarded-host-first")
			if pc.validate {
				// (d) with validation the reported client IP is always syntactically an address
				vAssert(vIsIPish(with.ip), "validated-ip")
			}
		}
	}
	// (e) secure <=> https
	vAssert(with.secure == (with.scheme == "https"), "secure-iff-https")
	vAssert(without.secure == (without.scheme == "https"), "secure-iff-https-2")
}

// VH_C10_list: with IP validation the client IP is the first syntactically valid entry of the
// forwarding header, whatever invalid entries precede it. case = sep*2 + family of the valid entry.
func VH_C10_list(caseID int) {
	good := []string{"198.51.100.9", "2001:db8::5"}[caseID%2]
	sep := []string{", ", ","}[(caseID/2)%2]
	app := New(Config{TrustProxy: true, ProxyHeader: "X-Forwarded-For", EnableIPValidation: true,
		TrustProxyConfig: TrustProxyConfig{Loopback: true}})
	bad := vString("bad", vLen("badlen", 1, 3))
	for i := 0; i < len(bad); i++ {
		c := bad[i]
		vAssume(vOr(vOr(vAnd(c >= '0', c <= '9'), vAnd(c >= 'a', c <= 'f')), vOr(c == '.', c == ':')))
		// no "::": nothing this short is then an address
		if i > 0 {
			vAssume(!vAnd(bad[i-1] == ':', c == ':'))
		}
	}
	fctx := &fasthttp.RequestCtx{}
	fctx.Request.Header.SetMethod("GET")
	fctx.Request.SetRequestURI("/")
	fctx.Request.Header.Set("X-Forwarded-For", bad+sep+good)
	fctx.SetRemoteAddr(&net.TCPAddr{IP: net.IP{127, 0, 0, 1}, Port: 4000})
	c := app.AcquireCtx(fctx)
	ip := c.IP()
	ips := c.IPs()
	app.ReleaseCtx(c)
	vAssert(ip == good, "first-valid-entry")
	vAssert(len(ips) == 1, "only-valid-entries-listed")
	if len(ips) == 1 {
		vAssert(ips[0] == good, "valid-entry-listed")
	}
	vReach("listed")
}
