package fiber

// Shared helpers for the root-package harnesses. Everything here is plain Go that is executed
// symbolically by gosym and natively on replay.

import (
	"github.com/valyala/fasthttp"
)

var vLowerTab [256]byte

func init() {
	for i := 0; i < 256; i++ {
		c := byte(i)
		if c >= 'A' && c <= 'Z' {
			c += 32
		}
		vLowerTab[i] = c
	}
}

// vLower lower-cases ASCII without branching on the bytes.
func vLower(s string) string {
	b := make([]byte, len(s))
	for i := 0; i < len(s); i++ {
		b[i] = vLowerTab[s[i]]
	}
	return string(b)
}

// vWirePath assumes p is a path a client can put on the wire and fasthttp hands to the router
// unchanged: printable ASCII without '?', '#', (and '%' unless pct), starting with a single '/'.
func vWirePath(p string, pct bool) {
	vAssume(len(p) > 0)
	vAssume(p[0] == '/')
	if len(p) > 1 {
		vAssume(p[1] != '/')
	}
	for i := 0; i < len(p); i++ {
		c := p[i]
		vAssume(c > 0x20)
		vAssume(c < 0x7f)
		vAssume(c != '?')
		vAssume(c != '#')
		if !pct {
			vAssume(c != '%')
		}
	}
}

// vTrimSlashes removes all trailing slashes.
func vTrimSlashes(s string) string {
	n := len(s)
	for n > 0 && s[n-1] == '/' {
		n--
	}
	return s[:n]
}

func vHasPrefix(s, prefix string) bool {
	return len(s) >= len(prefix) && s[:len(prefix)] == prefix
}

func vContainsByte(s string, c byte) bool {
	r := false
	for i := 0; i < len(s); i++ {
		r = vOr(r, s[i] == c)
	}
	return r
}

// vDo dispatches one request through the app's real handler and returns the fasthttp context.
func vDo(app *App, method, path string) *fasthttp.RequestCtx {
	fctx := &fasthttp.RequestCtx{}
	fctx.Request.Header.SetMethod(method)
	fctx.Request.SetRequestURI(path)
	app.Handler()(fctx)
	return fctx
}

type vCfg struct {
	cs, strict, unescape bool
}

var vCfgs = []vCfg{
	{false, false, false},
	{true, false, false},
	{false, true, false},
	{true, true, false},
	{false, false, true},
	{true, false, true},
	{false, true, true},
	{true, true, true},
}

// vStatusOnly is an error handler that does not render the error text (the 404 text embeds the
// escaped path, which is irrelevant for routing properties and forks per byte).
func vStatusOnly(c Ctx, err error) error {
	code := StatusInternalServerError
	if e, ok := err.(*Error); ok {
		code = e.Code
	}
	return c.SendStatus(code)
}

func vNewApp(cfg vCfg) *App {
	vStub("html.EscapeString=identity")
	vStub("fasthttp.normalizePath=skip")
	return New(Config{CaseSensitive: cfg.cs, StrictRouting: cfg.strict, UnescapePath: cfg.unescape, ErrorHandler: vStatusOnly})
}
