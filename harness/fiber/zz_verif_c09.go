package fiber

import "github.com/valyala/fasthttp"

// C09 — content negotiation follows the RFC 9110 preference order.

// ---------------------------------------------------------------------------
// 1. sortAcceptedTypes with symbolic keys

func vBefore(a, b *acceptedType) bool {
	qgt := a.quality > b.quality
	qeq := a.quality == b.quality
	sgt := a.specificity > b.specificity
	seq := a.specificity == b.specificity
	pgt := len(a.params) > len(b.params)
	peq := len(a.params) == len(b.params)
	olt := a.order < b.order
	return vOr(qgt, vAnd(qeq, vOr(sgt, vAnd(seq, vOr(pgt, vAnd(peq, olt))))))
}

// VH_C09_sort: case = number of entries (2..5).
func VH_C09_sort(n int) {
	at := make([]acceptedType, n)
	for k := range at {
		at[k].quality = vF64("q")
		at[k].specificity = vInt("s", 1, 4)
		np := vChoice("np"+string(rune('0'+k)), 3)
		if np > 0 {
			at[k].params = headerParams{}
			for j := 0; j < np; j++ {
				at[k].params[string(rune('a'+j))] = nil
			}
		}
		at[k].order = k + 1
	}
	sortAcceptedTypes(at)
	seen := 0
	for k := 0; k < n; k++ {
		seen |= 1 << at[k].order
	}
	vAssert(seen == (1<<(n+1))-2, "permutation")
	for k := 0; k+1 < n; k++ {
		vAssert(vBefore(&at[k], &at[k+1]), "sorted")
	}
	vReach("sorted")
}

// ---------------------------------------------------------------------------
// 2. forEachMediaRange vs a reference splitter (RFC 9110 list of elements with quoted-strings)

func vRefRanges(h []byte) [][]byte {
	var out [][]byte
	i := 0
	for i < len(h) {
		for i < len(h) && h[i] == ' ' {
			i++
		}
		if i >= len(h) {
			break
		}
		start := i
		inq := false
		for i < len(h) {
			c := h[i]
			if inq {
				if c == '\\' && i+1 < len(h) {
					i += 2
					continue
				}
				if c == '"' {
					inq = false
				}
			} else {
				if c == '"' {
					inq = true
				} else if c == ',' {
					break
				}
			}
			i++
		}
		if i > len(h) {
			i = len(h)
		}
		out = append(out, h[start:i])
		if i >= len(h) {
			break
		}
		i++ // skip comma
	}
	return out
}

func vNonEmpty(l [][]byte) [][]byte {
	var out [][]byte
	for _, x := range l {
		if len(x) > 0 {
			out = append(out, x)
		}
	}
	return out
}

// VH_C09_ranges: case = header length.
func VH_C09_ranges(n int) {
	h := vBytes("hdr", n)
	// arbitrary bytes, but only the structurally relevant classes matter: comma, quote,
	// backslash, space, other
	var got [][]byte
	cp := make([]byte, len(h))
	copy(cp, h)
	forEachMediaRange(cp, func(r []byte) {
		got = append(got, r)
	})
	want := vRefRanges(h)
	// empty list elements carry no range: compare the non-empty ones
	got = vNonEmpty(got)
	want = vNonEmpty(want)
	vAssert(len(got) == len(want), "range-count")
	if len(got) == len(want) {
		for k := range got {
			vAssert(string(got[k]) == string(want[k]), "range-text")
		}
	}
	vReach("split")
}

// ---------------------------------------------------------------------------
// 3. end-to-end negotiation on templated headers

type vRangeT struct {
	typ    string
	param  string // "" or "format=flowed"
	q10    int    // quality in tenths (0..10)
	spec   int
	nparam int
	order  int
}

var vC09Types = []string{"text/html", "text/*", "*/*", "application/json", "text/plain"}

var vC09Offers = [][]string{
	{"text/html", "application/json"},
	{"html", "json", "txt"},
	{"text/plain;format=flowed", "text/html"},
	{"application/json", "text/plain"},
	{"application/json;v=1", "text/html;format=flowed", "text/html"},
}

func vMimeOf(offer string) (mime, params string) {
	for i := 0; i < len(offer); i++ {
		if offer[i] == ';' {
			return vExtMime(offer[:i]), offer[i+1:]
		}
	}
	return vExtMime(offer), ""
}

func vExtMime(s string) string {
	switch s {
	case "html":
		return "text/html"
	case "json":
		return "application/json"
	case "txt":
		return "text/plain"
	}
	return s
}

func vAcceptable(r *vRangeT, offer string) bool {
	mime, oparams := vMimeOf(offer)
	ok := false
	switch {
	case r.typ == "*/*":
		ok = true
	case len(r.typ) > 2 && r.typ[len(r.typ)-2:] == "/*":
		ok = vHasPrefix(mime, r.typ[:len(r.typ)-1])
	default:
		ok = r.typ == mime
	}
	if !ok {
		return false
	}
	if r.param != "" && oparams != r.param {
		return false
	}
	return true
}

// VH_C09_offer: case = offerList*4 + (number of ranges - 1).
func VH_C09_offer(caseID int) {
	offers := vC09Offers[caseID/4]
	nr := caseID%4 + 1
	hdr := ""
	var rs []vRangeT
	for k := 0; k < nr; k++ {
		if k > 0 {
			if vChoice("ows-before"+string(rune('0'+k)), 2) == 1 {
				hdr += " "
			}
			hdr += ","
			if vChoice("ows-after"+string(rune('0'+k)), 2) == 1 {
				hdr += " "
			}
		}
		r := vRangeT{order: k + 1, q10: 10}
		ntypes := len(vC09Types)
		if nr > 1 {
			ntypes = 4
		}
		r.typ = vC09Types[vChoice("type"+string(rune('0'+k)), ntypes)]
		hdr += r.typ
		if (nr == 1 || k == 0 || (caseID/4 == 4 && k == 1)) && vChoice("param"+string(rune('0'+k)), 2) == 1 {
			r.param = "format=flowed"
			if k == 1 {
				// a second range with a different parameter (offer list 4)
				r.param = "v=1"
			}
			r.nparam = 1
			hdr += ";" + r.param
		}
		qc := vChoice("q"+string(rune('0'+k)), 4)
		if nr > 1 && qc == 2 {
			qc = 0 // ;q=1 behaves like an absent q: explored for single ranges only
		}
		switch qc {
		case 1:
			hdr += ";q=0"
			r.q10 = 0
		case 2:
			hdr += ";q=1"
		case 3:
			d := vByte("qdigit" + string(rune('0'+k)))
			vAssume(d >= '0')
			vAssume(d <= '9')
			hdr += ";q=0." + string([]byte{d})
			r.q10 = vConcretize(int(d - '0'))
		}
		switch {
		case r.typ == "*/*":
			r.spec = 1
		case r.typ[len(r.typ)-2:] == "/*":
			r.spec = 2
		default:
			r.spec = 3
		}
		rs = append(rs, r)
	}
	got := getOffer([]byte(hdr), acceptsOfferType, offers...)

	// reference negotiator: stable order by (q desc, specificity desc, #params desc, position asc)
	idx := make([]int, 0, len(rs))
	for k := range rs {
		if rs[k].q10 == 0 {
			continue
		}
		idx = append(idx, k)
	}
	for a := 1; a < len(idx); a++ {
		for b := a; b > 0; b-- {
			x, y := &rs[idx[b]], &rs[idx[b-1]]
			better := x.q10 > y.q10 || (x.q10 == y.q10 && (x.spec > y.spec || (x.spec == y.spec && (x.nparam > y.nparam || (x.nparam == y.nparam && x.order < y.order)))))
			if !better {
				break
			}
			idx[b], idx[b-1] = idx[b-1], idx[b]
		}
	}
	want := ""
	for _, k := range idx {
		for _, o := range offers {
			if vAcceptable(&rs[k], o) {
				want = o
				break
			}
		}
		if want != "" {
			break
		}
	}
	vObserve("header", hdr)
	vObserve("got", got)
	vObserve("want", want)
	vAssert(got == want, "offer")
	if want == "" {
		vReach("none")
	} else {
		vReach("some")
	}
}

// VH_C09_format: Format runs the handler of the offer that Accepts selects (the "default" entry may
// stand anywhere in the list), sets that content type, and falls back to default / 406.
// case = position of the "default" entry (0..2; 3 = none).
func VH_C09_format(caseID int) {
	app := vNewApp(vCfgs[0])
	// q = 0.d with a symbolic digit d (or 1)
	qv := func(name string) string {
		if vChoice(name+"one", 2) == 1 {
			return "1"
		}
		d := vByte(name)
		vAssume(vAnd(d >= '0', d <= '9'))
		return "0." + string([]byte{d})
	}
	qa := qv("qjson")
	qb := qv("qhtml")
	third := []string{"", ", */*;q=0.1", ", text/plain"}[vChoice("third", 3)]
	accept := "application/json;q=" + qa + ", text/html;q=" + qb + third

	probe := func() *fasthttp.RequestCtx {
		fctx := &fasthttp.RequestCtx{}
		fctx.Request.Header.SetMethod("GET")
		fctx.Request.SetRequestURI("/")
		fctx.Request.Header.Set("Accept", accept)
		return fctx
	}
	// what negotiation selects among the real offers, in list order
	c0 := app.AcquireCtx(probe())
	want := c0.Accepts("text/html", "application/json")
	app.ReleaseCtx(c0)

	ran := ""
	mk := func(name string) Handler {
		return func(Ctx) error { ran += name; return nil }
	}
	hs := []ResFmt{{MediaType: "text/html", Handler: mk("H")}, {MediaType: "application/json", Handler: mk("J")}}
	if caseID < 3 {
		def := ResFmt{MediaType: "default", Handler: mk("D")}
		hs = append(hs[:caseID], append([]ResFmt{def}, hs[caseID:]...)...)
	}
	fctx := probe()
	c := app.AcquireCtx(fctx)
	err := c.Format(hs...)
	ctype := string(fctx.Response.Header.ContentType())
	status := fctx.Response.StatusCode()
	app.ReleaseCtx(c)
	vAssert(err == nil, "format-no-error")
	switch want {
	case "text/html":
		vReach("negotiated")
		vAssert(ran == "H", "runs-the-negotiated-handler")
		vAssert(ctype == "text/html", "content-type-of-the-negotiated-offer")
	case "application/json":
		vReach("negotiated")
		vAssert(ran == "J", "runs-the-negotiated-handler")
		vAssert(ctype == "application/json", "content-type-of-the-negotiated-offer")
	default:
		vReach("not-acceptable")
		if caseID < 3 {
			vAssert(ran == "D", "falls-back-to-default")
		} else {
			vAssert(ran == "", "no-handler-when-nothing-acceptable")
			vAssert(status == StatusNotAcceptable, "406")
		}
	}
}
