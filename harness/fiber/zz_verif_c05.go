package fiber

// C05 — requests are isolated from each other despite context pooling (2-safety by
// self-composition: the probe's observation after arbitrary preceding requests on a pooled
// context must equal its observation on a fresh app).

import (
	"github.com/valyala/fasthttp"
)

type vC05Obs struct {
	a, b, c    string
	bindNil    bool
	redirSt    int
	redirMsgs  int
	flashN     int
	flashFirst string
	oldN       int
	view       string
	baseURL    string
	routePath  string
	leakHdr    string
	status     int
	matched    bool
	accepts    string
}

func vC05App(obs *vC05Obs, preOp *int, flash *[]byte) *App {
	app := vNewApp(vCfgs[0])
	pre := func(c Ctx) error {
		dc, _ := c.(*DefaultCtx)
		switch *preOp {
		case 0:
			c.Bind().WithAutoHandling()
		case 1:
			c.Redirect().Status(StatusMovedPermanently).With("m", "secret")
		case 2:
			_ = c.ViewBind(Map{"x": "secret"})
		case 3:
			c.Set("X-Leak", "secret")
			c.Status(StatusTeapot)
		case 4:
			_ = c.BaseURL()
		case 5:
			return NewError(StatusTeapot, "boom")
		case 6, 8:
			dc.Redirect().parseAndClearFlashMessages()
		case 7:
			panic("handler panic")
		case 9:
			// content negotiation over the request's Accept header (pooled parameter maps)
			_ = c.Accepts("application/json;profile=a", "text/html")
		}
		return nil
	}
	app.Get("/p/:a/:b", pre)
	app.Get("/pp/:a/:b/:c", pre)
	app.Get("/q/:c?", func(c Ctx) error {
		dc, _ := c.(*DefaultCtx)
		if *preOp == 8 {
			// the probe itself carries a (crafted) flash cookie
			dc.Redirect().parseAndClearFlashMessages()
		}
		obs.a = c.Params("a")
		obs.b = c.Params("b")
		obs.c = c.Params("c")
		obs.bindNil = dc.bind == nil
		obs.redirSt = c.Redirect().status
		obs.redirMsgs = len(c.Redirect().messages)
		ms := c.Redirect().Messages()
		obs.flashN = len(ms)
		if len(ms) > 0 {
			obs.flashFirst = ms[0].Key + "=" + ms[0].Value
		}
		obs.oldN = len(c.Redirect().OldInputs())
		if v, ok := dc.viewBindMap.Load("x"); ok {
			if s, isStr := v.(string); isStr {
				obs.view = s
			}
		}
		obs.baseURL = c.BaseURL()
		obs.routePath = c.Route().Path
		obs.leakHdr = c.GetRespHeader("X-Leak")
		obs.matched = dc.matched
		obs.accepts = c.Accepts("application/json;charset=utf-8", "text/html;level=1")
		return nil
	})
	app.startupProcess()
	return app
}

var vC05Accept string

func vC05Request(app *App, path string, cookie []byte, host string) (status int) {
	fctx := &fasthttp.RequestCtx{}
	fctx.Request.Header.SetMethod("GET")
	fctx.Request.SetRequestURI(path)
	fctx.Request.Header.SetHost(host)
	if vC05Accept != "" {
		fctx.Request.Header.Set("Accept", vC05Accept)
	}
	if cookie != nil {
		fctx.Request.Header.SetCookieBytesKV([]byte(FlashCookieName), cookie)
	}
	func() {
		defer func() {
			// a panicking handler: fasthttp recovers per connection; the context was not released
			_ = recover()
		}()
		app.Handler()(fctx)
	}()
	return fctx.Response.StatusCode()
}

func (z redirectionMsgs) vEnc() []byte {
	b, _ := z.MarshalMsg(nil)
	return b
}

// VH_C05_isolation: case = preOp*2 + (0: one preceding request, 1: two preceding requests).
func VH_C05_isolation(caseID int) {
	preOp := caseID / 2
	two := caseID%2 == 1
	var obsA, obsB vC05Obs
	var flash []byte
	opA := preOp
	appA := vC05App(&obsA, &opA, &flash)
	opB := preOp
	appB := vC05App(&obsB, &opB, &flash)

	// preceding requests on world A only
	pa := vString("prea", 1)
	pb := vString("preb", 2)
	for _, s := range []string{pa, pb} {
		for i := 0; i < len(s); i++ {
			vAssume(s[i] > 0x20)
			vAssume(s[i] < 0x7f)
			vAssume(s[i] != '/')
			vAssume(s[i] != '?')
			vAssume(s[i] != '#')
			vAssume(s[i] != '%')
		}
	}
	var cookie []byte
	if preOp == 6 {
		cookie = vBytes("cookie", vLen("cookielen", 1, 3))
		for i := 0; i < len(cookie); i++ {
			vAssume(cookie[i] != ';')
			vAssume(cookie[i] != ' ')
			vAssume(cookie[i] != '"')
		}
	}
	var probeCookie []byte
	if preOp == 8 {
		// a legitimate message in the preceding request, crafted bytes in the probe
		cookie = redirectionMsgs{{key: "k", value: "secret", level: 3}, {key: "o", value: "secret2", isOldInput: true}}.vEnc()
		probeCookie = vBytes("probecookie", vLen("pcookielen", 1, 3))
		for i := 0; i < len(probeCookie); i++ {
			vAssume(probeCookie[i] != ';')
			vAssume(probeCookie[i] != ' ')
			vAssume(probeCookie[i] != '"')
		}
	}
	vC05Accept = ""
	if preOp == 9 {
		// the earlier client refuses a parameterised range, accepts another one
		vC05Accept = []string{"application/json;profile=a;q=0, text/html", "text/html;level=2;q=0, application/json;profile=a", "application/json;profile=a"}[vChoice("preaccept", 3)]
	}
	if two {
		vC05Request(appA, "/pp/"+pb+"/"+pa+"/zz", nil, "first.io")
	}
	vC05Request(appA, "/p/"+pa+"/"+pb, cookie, "evil.io")
	vC05Accept = ""
	if preOp == 9 {
		vC05Accept = []string{"application/json;charset=utf-8", "text/html;level=1, application/json;charset=utf-8;q=0.5"}[vChoice("probeaccept", 2)]
	}

	// the probe, identical in both worlds
	probe := "/q"
	if vChoice("probe-with-param", 2) == 1 {
		pc := vString("probec", 1)
		vAssume(pc[0] > 0x20)
		vAssume(pc[0] < 0x7f)
		vAssume(pc[0] != '/')
		vAssume(pc[0] != '?')
		vAssume(pc[0] != '#')
		vAssume(pc[0] != '%')
		probe = "/q/" + pc
	}
	obsA.status = vC05Request(appA, probe, probeCookie, "good.io")
	obsB.status = vC05Request(appB, probe, probeCookie, "good.io")

	vAssert(obsA.a == obsB.a, "param-a")
	vAssert(obsA.b == obsB.b, "param-b")
	vAssert(obsA.c == obsB.c, "param-c")
	vAssert(obsA.bindNil == obsB.bindNil, "bind-state")
	vAssert(obsA.redirSt == obsB.redirSt, "redirect-status")
	vAssert(obsA.redirMsgs == obsB.redirMsgs, "redirect-messages")
	vAssert(obsA.flashN == obsB.flashN, "flash-count")
	vAssert(obsA.flashFirst == obsB.flashFirst, "flash-content")
	vAssert(obsA.oldN == obsB.oldN, "old-input-count")
	vAssert(obsA.view == obsB.view, "view-bind")
	vAssert(obsA.baseURL == obsB.baseURL, "base-url")
	vAssert(obsA.routePath == obsB.routePath, "route-path")
	vAssert(obsA.leakHdr == obsB.leakHdr, "response-header")
	vAssert(obsA.status == obsB.status, "status")
	vAssert(obsA.matched == obsB.matched, "matched-flag")
	vAssert(obsA.accepts == obsB.accepts, "negotiation")
	vReach("compared")
}
