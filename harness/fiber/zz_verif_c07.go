package fiber

// C07 — no request can crash, wedge or balloon the server; replies are well-formed.
// Slices: (1) totality of the hand-written header parsers/accessors on arbitrary bytes,
// (2) no header injection through response helpers (real fasthttp serialiser),
// (3) entry guard: methods outside the configured set get 501.

import (
	"github.com/valyala/fasthttp"
)

// vArbHeader: bytes fasthttp's request parser lets through in a header value (no CTLs except
// HTAB). ascii: only 7-bit bytes (the accessor decodes runes); binDigits: of the decimal digits
// only '0' and '1' (keeps numeric sub-parsers within the engine's case-split bound).
func vArbHeader(name string, lo, hi int, ascii, binDigits bool) string {
	s := vString(name, vLen(name+"len", lo, hi))
	for i := 0; i < len(s); i++ {
		c := s[i]
		vAssume(vOr(c >= 0x20, c == '\t'))
		vAssume(c != 0x7f)
		if ascii {
			vAssume(c < 0x80)
		}
		if binDigits {
			vAssume(vOr(c < '2', c > '9'))
		}
	}
	return s
}

// VH_C07_total: case = accessor. Any panic reaching the harness is the violation.
func VH_C07_total(caseID int) {
	vStub("html.EscapeString=identity")
	vStub("fasthttp.normalizePath=skip")
	app := New(Config{EnableIPValidation: caseID%2 == 0, ErrorHandler: vStatusOnly})
	fctx := &fasthttp.RequestCtx{}
	fctx.Request.Header.SetMethod("GET")
	fctx.Request.SetRequestURI("/")
	switch caseID {
	case 0, 1:
		fctx.Request.Header.Set("Accept", vArbHeader("accept", 1, 5, false, true))
	case 2:
		fctx.Request.Header.Set("Accept-Charset", vArbHeader("acs", 1, 3, false, true))
		fctx.Request.Header.Set("Accept-Encoding", vArbHeader("aenc", 1, 2, false, true))
	case 3:
		fctx.Request.Header.Set("Accept-Language", vArbHeader("alang", 1, 4, false, true))
	case 4, 5:
		fctx.Request.Header.Set("Range", vArbHeader("range", 1, 8, false, true))
	case 6, 7:
		fctx.Request.Header.Set("X-Forwarded-For", vArbHeader("xff", 1, 4, false, false))
	case 8:
		fctx.Request.Header.SetHost(vArbHeader("host", 1, 2, true, false))
	case 9:
		fctx.Request.Header.Set("If-None-Match", vArbHeader("inm", 1, 4, false, false))
	case 10:
		fctx.Request.Header.Set("Cache-Control", vArbHeader("cc", 1, 8, false, false))
		fctx.Request.Header.Set("If-None-Match", "\"abc\"")
	case 11:
		fctx.Request.Header.Set("Content-Type", vArbHeader("ctype", 1, 4, false, false))
	case 12:
		fctx.Request.Header.Set("Cookie", vArbHeader("cookie", 1, 4, false, false))
	case 13:
		fctx.Request.Header.Set("Content-Encoding", vArbHeader("cenc", 1, 3, true, false))
		fctx.Request.SetBodyString("xy")
	}
	c := app.AcquireCtx(fctx)
	switch caseID {
	case 0:
		_ = c.Accepts("html", "json")
	case 1:
		_ = c.Accepts("text/plain;format=flowed", "application/json", "png")
	case 2:
		_ = c.AcceptsCharsets("utf-8", "iso-8859-1")
		_ = c.AcceptsEncodings("gzip", "br")
	case 3:
		_ = c.AcceptsLanguages("en", "de-CH")
	case 4:
		size := vInt("size", 0, 1000)
		_, _ = c.Range(size)
	case 5:
		_, _ = c.Range(0)
	case 6, 7:
		_ = c.IPs()
		_ = c.IP()
	case 8:
		off := vInt("offset", 0, 4)
		_ = c.Subdomains(off)
		_ = c.Hostname()
		_ = c.Host()
	case 9, 10:
		c.Set("ETag", "\"abc\"")
		_ = c.Fresh()
	case 11:
		_ = c.Is("html")
		_ = c.Is(".json")
	case 12:
		_ = c.Cookies("a")
		_ = c.Cookies("fiber_flash")
	case 13:
		_ = c.Body()
	}
	app.ReleaseCtx(c)
	vReach("returned")
}

// vHeaderLines serialises the response header with fasthttp's real writer and counts LF bytes.
func vHeaderLines(fctx *fasthttp.RequestCtx) int {
	h := fctx.Response.Header.Header()
	n := 0
	for i := 0; i < len(h); i++ {
		n += vB2I(h[i] == '\n')
	}
	return n
}

func vC07Sink(c Ctx, sink int, v string) {
	switch sink {
	case 0:
		c.Location(v)
	case 1:
		_ = c.Redirect().To(v)
	case 2:
		c.Links(v, "next")
	case 3:
		c.Links("http://a.io", v)
	case 4:
		c.Attachment(v)
	case 5:
		c.Type("html", v)
	case 6:
		c.Cookie(&Cookie{Name: "n", Value: v})
	case 7:
		c.Cookie(&Cookie{Name: "n", Value: "x", Path: v})
	case 8:
		c.Cookie(&Cookie{Name: "n", Value: "x", Domain: v})
	case 9:
		c.Set("X-Any", v)
	case 10:
		c.Append("X-List", v)
	case 11:
		c.Vary(v)
	case 12:
		_ = c.JSONP("x", v)
	case 13:
		_ = c.Redirect().With("k", v).To("/next")
	case 14:
		c.Cookie(&Cookie{Name: v, Value: "x"})
	case 15:
		c.Cookie(&Cookie{Name: "n", Value: "x", SameSite: v})
	}
}

// VH_C07_inject: case = sink. The header block written for an arbitrary handler-supplied string
// must have exactly as many lines as for a benign string of the same length.
func VH_C07_inject(sink int) {
	vStub("html.EscapeString=identity")
	vStub("fasthttp.normalizePath=skip")
	app := New(Config{ErrorHandler: vStatusOnly})
	n := vLen("vlen", 1, 3)
	v := vString("val", n)
	if sink == 4 {
		// Attachment derives a Content-Type from the file extension: keep the name extension-free
		for i := 0; i < len(v); i++ {
			vAssume(v[i] != '.')
		}
	}
	benign := "aaa"[:n]
	run := func(val string) (int, bool) {
		fctx := &fasthttp.RequestCtx{}
		fctx.Request.Header.SetMethod("GET")
		fctx.Request.SetRequestURI("/")
		c := app.AcquireCtx(fctx)
		vC07Sink(c, sink, val)
		lines := vHeaderLines(fctx)
		body := fctx.Response.Body()
		_ = body
		app.ReleaseCtx(c)
		return lines, true
	}
	want, _ := run(benign)
	got, _ := run(v)
	if sink == 13 {
		vKnown("C07-K1-flash-cookie-raw", true)
	}
	vAssert(got == want, "no-extra-header-line")
	vReach("serialised")
}

type vC07CustomCtx struct {
	DefaultCtx
}

// VH_C07_guard: a request whose method is outside the configured set gets 501 and no handler.
// case 0: default method set; case 1: custom RequestMethods; +2: application with a custom context.
func VH_C07_guard(caseID int) {
	vStub("html.EscapeString=identity")
	vStub("fasthttp.normalizePath=skip")
	cfg := Config{ErrorHandler: vStatusOnly}
	methods := DefaultMethods
	if caseID%2 == 1 {
		methods = []string{"GET", "POST", "LOCK"}
		cfg.RequestMethods = methods
	}
	app := New(cfg)
	if caseID >= 2 {
		app.NewCtxFunc(func(app *App) CustomCtx {
			return &vC07CustomCtx{DefaultCtx: *NewDefaultCtx(app)}
		})
	}
	ran := false
	app.Use(func(c Ctx) error {
		ran = true
		return c.SendStatus(StatusOK)
	})
	app.startupProcess()
	m := vString("method", vLen("mlen", 1, 5))
	for i := 0; i < len(m); i++ {
		// token characters only (fasthttp's request-line parser splits on space)
		vAssume(m[i] > 0x20)
		vAssume(m[i] < 0x7f)
	}
	fctx := vDo(app, m, "/")
	inSet := false
	for _, x := range methods {
		inSet = vOr(inSet, m == x)
	}
	if ran {
		vReach("handled")
		vAssert(inSet, "handler-only-for-configured-method")
	} else {
		vReach("rejected")
		vAssert(!inSet, "configured-method-not-rejected")
		vAssert(fctx.Response.StatusCode() == StatusNotImplemented, "501")
	}
}

// VH_C07_path: an arbitrary request target never crashes the dispatcher, whatever the routing
// configuration makes of it (percent-decoding, case folding, trailing slashes). case = config index.
func VH_C07_path(caseID int) {
	cfg := vCfgs[caseID%8]
	app := vNewApp(cfg)
	ran := 0
	app.Get("/a/:x", func(c Ctx) error { ran++; _ = c.Params("x"); _ = c.Path(); return nil })
	app.Get("/*", func(c Ctx) error { ran++; _ = c.Params("*"); return nil })
	app.startupProcess()
	p := vString("path", vLen("plen", 1, 4))
	for i := 0; i < len(p); i++ {
		c := p[i]
		// bytes a request line can carry in the path (no blank, CTL, '?' or '#')
		vAssume(c > 0x20)
		vAssume(c != 0x7f)
		vAssume(c != '?')
		vAssume(c != '#')
	}
	fctx := vDo(app, "GET", "/"+p)
	st := fctx.Response.StatusCode()
	vAssert(vOr(st == StatusOK, st == StatusNotFound), "answered")
	vReach("returned")
}
