package fiber

// C08 — each handler error reaches exactly one, deterministic, correctly scoped error handler.

import "errors"

type vMNode struct {
	prefix string // mount prefix relative to the parent
	eh     bool   // configures its own ErrorHandler
	parent int    // index of the parent node (-1 = root app)
}

type vMTree struct {
	nodes     []vMNode
	rootEH    bool
	insideOut bool // mount children into their parent before the parent is mounted
	lens      []int
	grps      []string // per node: mounted through parent.Group(grps[i]) ("" = directly)
}

var vC08Catalogue = []vMTree{
	/* 0*/ {nodes: []vMNode{{"/ap", true, -1}, {"/ap-v", true, -1}}, rootEH: true, lens: []int{3, 4, 5, 6, 7}},
	/* 1*/ {nodes: []vMNode{{"/ap", true, -1}, {"/ap/v", true, -1}}, rootEH: true, lens: []int{3, 4, 5, 6, 7}},
	/* 2*/ {nodes: []vMNode{{"/a", true, -1}, {"/s", false, 0}, {"/t", true, 1}}, rootEH: true, lens: []int{2, 4, 5, 6, 7}},
	/* 3*/ {nodes: []vMNode{{"/a", true, -1}, {"/s", false, 0}, {"/t", true, 1}}, rootEH: true, insideOut: true, lens: []int{2, 4, 5, 6, 7}},
	/* 4*/ {nodes: []vMNode{{"/a", true, -1}, {"/b", false, 0}}, rootEH: false, lens: []int{2, 3, 4, 5, 6}},
	/* 5*/ {nodes: []vMNode{{"/a", false, -1}, {"/b", true, 0}, {"/ab", true, -1}}, rootEH: true, lens: []int{2, 3, 4, 5, 6}},
	/* 6*/ {nodes: []vMNode{{"/x/", true, -1}, {"/xy", true, -1}}, rootEH: false, lens: []int{2, 3, 4, 5}},
	/* 7*/ {nodes: []vMNode{{"/m", true, -1}, {"/m", true, 0}, {"/m", false, 1}}, rootEH: true, lens: []int{2, 4, 6, 7}},
	/* 8*/ {nodes: []vMNode{{"/a", true, -1}, {"/s", true, 0}, {"/s", true, -1}}, rootEH: true, lens: []int{2, 3, 4, 5}},
	/* 9*/ {nodes: []vMNode{{"/", true, -1}, {"/a", true, -1}, {"/b", true, 0}}, rootEH: true, lens: []int{1, 2, 3, 4}},
	/*10*/ {nodes: []vMNode{{"/", true, -1}, {"w", true, -1}}, grps: []string{"/v1/", "/v2/"}, rootEH: true, lens: []int{3, 4, 5, 6}},
}

var vErrPlain = errors.New("plain failure")

// VH_C08_errors: case = treeIndex*4 + errKind (0: framework 404, 1: *Error 418 from a root
// middleware, 2: plain error from a root middleware, 3: 404 and the chosen handler itself fails).
func VH_C08_errors(caseID int) {
	tr := &vC08Catalogue[caseID/4]
	kind := caseID % 4
	vStub("html.EscapeString=identity")
	vStub("fasthttp.normalizePath=skip")
	var trace []int
	handled := false
	mkEH := func(id int) ErrorHandler {
		return func(c Ctx, err error) error {
			trace = append(trace, id)
			if kind == 3 {
				return vErrPlain
			}
			code := StatusInternalServerError
			var e *Error
			if errors.As(err, &e) {
				code = e.Code
			}
			return c.SendStatus(code)
		}
	}
	rootCfg := Config{}
	if tr.rootEH {
		rootCfg.ErrorHandler = mkEH(100)
	}
	app := New(rootCfg)
	if kind == 1 {
		app.Use(func(c Ctx) error { return NewError(StatusTeapot) })
	}
	if kind == 2 {
		app.Use(func(c Ctx) error { return vErrPlain })
	}
	apps := make([]*App, len(tr.nodes))
	full := make([]string, len(tr.nodes))
	for i, n := range tr.nodes {
		cfg := Config{}
		if n.eh {
			cfg.ErrorHandler = mkEH(i)
		}
		apps[i] = New(cfg)
		apps[i].Get("/_", func(c Ctx) error { handled = true; return nil })
		p := vTrimSlashes(n.prefix)
		if p != "" && p[0] != '/' {
			p = "/" + p
		}
		grp := ""
		if i < len(tr.grps) {
			grp = tr.grps[i]
		}
		p = vTrimSlashes(grp) + p
		if n.parent >= 0 {
			full[i] = full[n.parent] + p
		} else {
			full[i] = p
		}
	}
	mount := func(i int) {
		n := tr.nodes[i]
		var host Router = app
		if n.parent >= 0 {
			host = apps[n.parent]
		}
		if i < len(tr.grps) && tr.grps[i] != "" {
			host = host.Group(tr.grps[i])
		}
		host.Use(n.prefix, apps[i])
	}
	if tr.insideOut {
		for i := len(tr.nodes) - 1; i >= 0; i-- {
			mount(i)
		}
	} else {
		for i := range tr.nodes {
			mount(i)
		}
	}
	app.startupProcess()

	n := tr.lens[vChoice("plen", len(tr.lens))]
	p := vString("path", n)
	vWirePath(p, false)
	// the error-handler choice must not depend on map iteration order
	vPermuteMaps(true)
	fctx := vDo(app, "GET", p)
	vPermuteMaps(false)

	if handled {
		// an endpoint answered: no error was returned to the framework
		vReach("handled")
		vAssert(len(trace) == 0, "no-error-no-handler")
		return
	}
	// oracle: innermost sub-app with its own handler whose full prefix contains the path on a
	// segment boundary
	want := -1
	wantSegs := 0
	for i := range tr.nodes {
		if !tr.nodes[i].eh {
			continue
		}
		f := full[i]
		if !vHasPrefix(p, f) {
			continue
		}
		if len(p) > len(f) && p[len(f)] != '/' {
			continue
		}
		// all candidates are boundary prefixes of the same path: longest = innermost
		if len(f)+1 > wantSegs {
			want, wantSegs = i, len(f)+1
		}
	}
	if want == -1 && tr.rootEH {
		want = 100
	}
	code := StatusNotFound
	if kind == 1 {
		code = StatusTeapot
	}
	if kind == 2 {
		code = StatusInternalServerError
	}
	if kind == 3 && want != -1 {
		// the chosen custom handler fails itself; the framework's default handler (want == -1)
		// does not, it answers the 404
		code = StatusInternalServerError
	}
	got := -2
	if len(trace) == 1 {
		got = trace[0]
	}
	if len(trace) == 0 {
		got = -1
	}
	vObserve("want", string(rune('0'+want%50)))
	if want == -1 {
		// default handler of the root app
		vReach("default-handler")
		vAssert(len(trace) == 0, "no-custom-handler")
	} else {
		vReach("custom-handler")
		vAssert(len(trace) == 1, "exactly-once")
		vAssert(got == want, "scoped-handler")
	}
	vAssert(fctx.Response.StatusCode() == code, "status")
}
