package fiber

// C02 — a handler only runs on paths its pattern describes; constraints are enforced.
//
// The catalogue describes each pattern as a token list; the oracle reads only the tokens,
// never fiber's own parse of the pattern text.

const (
	vLit = iota
	vNamed
	vNamedOpt
	vStar
	vPlus
)

const (
	vcInt = iota
	vcBool
	vcAlpha
	vcMinLen
	vcMaxLen
	vcLen
	vcBetweenLen
	vcMin
	vcMax
	vcRange
	vcCustomAB // custom constraint: value consists of 'a'/'b' only and is non-empty
	vcGUID
)

type vCons struct {
	text string
	kind int
	a, b int
}

type vTok struct {
	kind int
	lit  string // literal text as it appears in a request path
	pat  string // literal text as written in the pattern (escapes); "" = same as lit
	name string
	cons []vCons
}

type vPattern struct {
	toks []vTok
	use  bool
	lens []int // request path lengths explored (each fully symbolic)
}

func (p *vPattern) text() string {
	s := ""
	for _, t := range p.toks {
		switch t.kind {
		case vLit:
			if t.pat != "" {
				s += t.pat
			} else {
				s += t.lit
			}
		case vNamed, vNamedOpt:
			s += ":" + t.name
			if len(t.cons) > 0 {
				s += "<"
				for i, c := range t.cons {
					if i > 0 {
						s += ";"
					}
					s += c.text
				}
				s += ">"
			}
			if t.kind == vNamedOpt {
				s += "?"
			}
		case vStar:
			s += "*"
		case vPlus:
			s += "+"
		}
	}
	return s
}

// cleanText is the pattern text with escape characters removed (what a request would have to
// spell to hit the literal fallback).
func (p *vPattern) cleanText() string {
	s := ""
	for _, t := range p.toks {
		switch t.kind {
		case vLit:
			s += t.lit
		case vNamed, vNamedOpt:
			s += ":" + t.name
			if len(t.cons) > 0 {
				s += "<"
				for i, c := range t.cons {
					if i > 0 {
						s += ";"
					}
					s += c.text
				}
				s += ">"
			}
			if t.kind == vNamedOpt {
				s += "?"
			}
		case vStar:
			s += "*"
		case vPlus:
			s += "+"
		}
	}
	return s
}

func (p *vPattern) paramNames() []string {
	var names []string
	ns, np := 0, 0
	for _, t := range p.toks {
		switch t.kind {
		case vNamed, vNamedOpt:
			names = append(names, t.name)
		case vStar:
			ns++
			names = append(names, "*"+string(rune('0'+ns)))
		case vPlus:
			np++
			names = append(names, "+"+string(rune('0'+np)))
		}
	}
	return names
}

func vL(s string) vTok              { return vTok{kind: vLit, lit: s} }
func vN(name string, c ...vCons) vTok { return vTok{kind: vNamed, name: name, cons: c} }
func vO(name string, c ...vCons) vTok { return vTok{kind: vNamedOpt, name: name, cons: c} }

var (
	vCInt   = vCons{"int", vcInt, 0, 0}
	vCBool  = vCons{"bool", vcBool, 0, 0}
	vCAlpha = vCons{"alpha", vcAlpha, 0, 0}
)

var vC02Catalogue = []vPattern{
	/* 0*/ {toks: []vTok{vL("/u/"), vN("id", vCInt)}, lens: []int{1, 3, 4, 5, 6, 11}},
	/* 1*/ {toks: []vTok{vL("/u/"), vN("id", vCBool)}, lens: []int{4, 7, 8, 12}},
	/* 2*/ {toks: []vTok{vL("/u/"), vN("id", vCAlpha)}, lens: []int{4, 5, 13}},
	/* 3*/ {toks: []vTok{vL("/u/"), vN("id", vCons{"minLen(2)", vcMinLen, 2, 0})}, lens: []int{4, 5, 6, 17}},
	/* 4*/ {toks: []vTok{vL("/u/"), vN("id", vCons{"maxLen(2)", vcMaxLen, 2, 0})}, lens: []int{4, 5, 6, 17}},
	/* 5*/ {toks: []vTok{vL("/u/"), vN("id", vCons{"len(2)", vcLen, 2, 0})}, lens: []int{4, 5, 6, 14}},
	/* 6*/ {toks: []vTok{vL("/u/"), vN("id", vCons{"betweenLen(1,2)", vcBetweenLen, 1, 2})}, lens: []int{4, 5, 6}},
	/* 7*/ {toks: []vTok{vL("/u/"), vN("id", vCons{"min(5)", vcMin, 5, 0})}, lens: []int{4, 5, 6, 14}},
	/* 8*/ {toks: []vTok{vL("/u/"), vN("id", vCons{"max(50)", vcMax, 50, 0})}, lens: []int{4, 5, 6}},
	/* 9*/ {toks: []vTok{vL("/u/"), vN("id", vCons{"range(5,50)", vcRange, 5, 50})}, lens: []int{4, 5, 6}},
	/*10*/ {toks: []vTok{vL("/u/"), vN("id", vCInt, vCons{"min(5)", vcMin, 5, 0})}, lens: []int{4, 5, 18}},
	/*11*/ {toks: []vTok{vL("/u/"), vO("id", vCInt)}, lens: []int{2, 3, 4, 5, 12}},
	/*12*/ {toks: []vTok{vL("/"), vN("a"), vL("-"), vN("b")}, lens: []int{2, 4, 5, 6}},
	/*13*/ {toks: []vTok{vL("/"), vN("a"), vL("."), vN("b", vCInt)}, lens: []int{4, 5, 11}},
	/*14*/ {toks: []vTok{vL("/f/"), vN("name"), vL("/x")}, lens: []int{5, 6, 7, 10}},
	/*15*/ {toks: []vTok{vL("/f/"), vTok{kind: vStar}}, lens: []int{2, 3, 4, 6}},
	/*16*/ {toks: []vTok{vL("/f/"), vTok{kind: vPlus}}, lens: []int{3, 4, 6}},
	/*17*/ {toks: []vTok{vL("/f/"), vTok{kind: vStar}, vL("/x/"), vTok{kind: vStar}}, lens: []int{6, 7, 8}},
	/*18*/ {toks: []vTok{vL("/"), vN("a"), vN("b")}, lens: []int{2, 3, 4, 5}},
	/*19*/ {toks: []vTok{vTok{kind: vLit, lit: "/v:1/", pat: "/v\\:1/"}, vN("x")}, lens: []int{6, 7, 8}},
	/*20*/ {toks: []vTok{vL("/m/"), vN("x")}, use: true, lens: []int{3, 4, 5, 6}},
	/*21*/ {toks: []vTok{vL("/m/"), vN("x", vCInt)}, use: true, lens: []int{4, 5, 6, 11}},
	/*22*/ {toks: []vTok{vL("/"), vO("x")}, lens: []int{1, 2, 3, 4}},
	/*23*/ {toks: []vTok{vL("/a/"), vO("x"), vL("/b")}, lens: []int{4, 5, 6, 7}},
	/*24*/ {toks: []vTok{vL("/c/"), vN("x", vCons{"isab", vcCustomAB, 0, 0})}, lens: []int{4, 5, 6, 12}},
	/*25*/ {toks: []vTok{vL("/"), vN("a", vCInt), vL("-"), vN("b", vCAlpha)}, lens: []int{4, 5, 6}},
	/*26*/ {toks: []vTok{vL("/u/"), vN("id", vCInt), vL("/p/"), vO("q", vCons{"maxLen(1)", vcMaxLen, 1, 0})}, lens: []int{6, 7, 8, 9}},
	/*27*/ {toks: []vTok{vL("/g/"), vN("id", vCons{"guid", vcGUID, 0, 0})}, lens: []int{5, 39, 12}},
}

type vABConstraint struct{}

func (vABConstraint) Name() string { return "isab" }
func (vABConstraint) Execute(param string, args ...string) bool {
	if len(param) == 0 {
		return false
	}
	for i := 0; i < len(param); i++ {
		if param[i] != 'a' && param[i] != 'b' {
			return false
		}
	}
	return true
}

// vIsDigits: non-empty, optional sign, decimal digits only.
func vIsInt(s string) (bool, int, bool) {
	// returns (syntactically an int, value, value-known) ; value is only computed for <= 9 digits
	if len(s) == 0 {
		return false, 0, false
	}
	i := 0
	neg := false
	if s[0] == '+' || s[0] == '-' {
		neg = s[0] == '-'
		i = 1
		if len(s) == 1 {
			return false, 0, false
		}
	}
	n := 0
	for ; i < len(s); i++ {
		c := s[i]
		if c < '0' || c > '9' {
			return false, 0, false
		}
		n = n*10 + int(c-'0')
	}
	if neg {
		n = -n
	}
	return true, n, len(s) <= 18
}

func vIsAlpha(s string) bool {
	for i := 0; i < len(s); i++ {
		c := s[i]
		if !((c >= 'a' && c <= 'z') || (c >= 'A' && c <= 'Z')) {
			return false
		}
	}
	return true
}

func vIsBool(s string) bool {
	switch s {
	case "1", "t", "T", "TRUE", "true", "True", "0", "f", "F", "FALSE", "false", "False":
		return true
	}
	return false
}

func vIsHex(c byte) bool {
	return (c >= '0' && c <= '9') || (c >= 'a' && c <= 'f') || (c >= 'A' && c <= 'F')
}

// vIsGUID accepts the forms google/uuid.Parse accepts.
func vIsGUID(s string) bool {
	switch len(s) {
	case 36:
	case 36 + 9:
		if vLower(s[:9]) != "urn:uuid:" {
			return false
		}
		s = s[9:]
	case 36 + 2:
		if s[0] != '{' || s[37] != '}' {
			return false
		}
		s = s[1:37]
	case 32:
		for i := 0; i < 32; i++ {
			if !vIsHex(s[i]) {
				return false
			}
		}
		return true
	default:
		return false
	}
	for i := 0; i < 36; i++ {
		if i == 8 || i == 13 || i == 18 || i == 23 {
			if s[i] != '-' {
				return false
			}
		} else if !vIsHex(s[i]) {
			return false
		}
	}
	return true
}

// vSatisfies is the independent reading of each documented constraint.
func vSatisfies(c vCons, v string) bool {
	switch c.kind {
	case vcInt:
		ok, _, _ := vIsInt(v)
		return ok
	case vcBool:
		return vIsBool(v)
	case vcAlpha:
		return vIsAlpha(v)
	case vcMinLen:
		return len(v) >= c.a
	case vcMaxLen:
		return len(v) <= c.a
	case vcLen:
		return len(v) == c.a
	case vcBetweenLen:
		return len(v) >= c.a && len(v) <= c.b
	case vcMin:
		ok, n, known := vIsInt(v)
		return ok && known && n >= c.a
	case vcMax:
		ok, n, known := vIsInt(v)
		return ok && known && n <= c.a
	case vcRange:
		ok, n, known := vIsInt(v)
		return ok && known && n >= c.a && n <= c.b
	case vcCustomAB:
		return vABConstraint{}.Execute(v)
	case vcGUID:
		return vIsGUID(v)
	}
	return false
}

// VH_C02_soundness: case = patternIndex*8 + cfgIndex.
func VH_C02_soundness(caseID int) {
	quick := caseID >= 1000
	caseID %= 1000
	pat := &vC02Catalogue[caseID/8]
	cfg := vCfgs[caseID%8]
	app := vNewApp(cfg)
	app.RegisterCustomConstraint(vABConstraint{})
	names := pat.paramNames()
	ran := false
	var got [8]string
	seenPath := ""
	h := func(c Ctx) error {
		ran = true
		seenPath = c.Path()
		for i, n := range names {
			got[i] = c.Params(n)
		}
		return nil
	}
	text := pat.text()
	if pat.use {
		app.Use(text, h)
	} else {
		app.Get(text, h)
	}
	app.startupProcess()

	lens := pat.lens
	if quick {
		// quick tier: short paths only, plus the length of the pattern text for three patterns
		lens = nil
		pi := caseID / 8
		for _, l := range pat.lens {
			if l <= 7 || pi == 0 || pi == 11 || pi == 21 {
				lens = append(lens, l)
			}
		}
	}
	n := lens[vChoice("plen", len(lens))]
	p := vString("path", n)
	vWirePath(p, cfg.unescape)
	fctx := vDo(app, "GET", p)

	if !ran {
		vReach("handler-skipped")
		if !pat.use {
			vAssert(fctx.Response.StatusCode() == StatusNotFound, "skipped-is-404")
		}
		return
	}
	vReach("handler-ran")

	fold := func(s string) string {
		if cfg.cs {
			return s
		}
		return vLower(s)
	}
	// known finding K1: the request path spells the (escape-free) pattern text
	clean := pat.cleanText()
	if !cfg.strict {
		clean = vTrimSlashes(clean)
	}
	vKnown("C02-K1-literal-fallback", vOr(fold(vTrimSlashes(p)) == fold(vTrimSlashes(clean)), fold(p) == fold(clean)))

	// (a) substituting the values reproduces the path
	rec := ""
	k := 0
	for _, t := range pat.toks {
		if t.kind == vLit {
			rec += t.lit
		} else {
			rec += got[k]
			k++
		}
	}
	recT := fold(vTrimSlashes(rec))
	seenT := fold(seenPath)
	if pat.use {
		vAssert(vHasPrefix(seenT, recT), "reconstructs-prefix")
	} else {
		vAssert(fold(vTrimSlashes(seenPath)) == recT, "reconstructs")
	}
	// (b) (c)
	k = 0
	for _, t := range pat.toks {
		if t.kind == vLit {
			continue
		}
		v := got[k]
		k++
		optional := t.kind == vNamedOpt || t.kind == vStar
		if !optional {
			vAssert(v != "", "non-empty")
		}
		if t.kind == vNamed || t.kind == vNamedOpt {
			vAssert(!vContainsByte(v, '/'), "no-slash")
		}
		if optional && v == "" {
			continue
		}
		for _, c := range t.cons {
			vAssert(vSatisfies(c, v), "constraint-"+c.text)
		}
	}
}
