package fiber

// C04 — mounting a sub-app is the same as registering its routes under a group with the mount
// prefix at the same position. Two apps are built from one composition descriptor and must
// give identical observations (handler trace, parameter values, status, Allow) for every request.

type vCompApp struct {
	regs   []vReg // routes of this (sub-)app; an entry with method "MOUNT" mounts a child app at path
	mounts []int  // apps mounted by the MOUNT entries, in order
}

type vComp struct {
	apps    []vCompApp // apps[0] is the root application
	names   []string   // parameter names observed by every handler
	lens    []int
	methods []string
	grp     string // if set, the root's MOUNT entries are issued from app.Group(grp)
}

var vC04Catalogue = []vComp{
	/* 0*/ {apps: []vCompApp{
		{regs: []vReg{{"GET", "/a", "s", "", ""}, {"MOUNT", "/m", "", "", ""}, {"GET", "/m/z", "s", "", ""}}, mounts: []int{1}},
		{regs: []vReg{{"GET", "/x", "s", "", ""}, {"USE", "/", "n", "", ""}, {"GET", "/:p", "s", "", ""}}},
	}, names: []string{"p"}, lens: []int{2, 4, 5}, methods: []string{"GET", "POST"}},
	/* 1*/ {apps: []vCompApp{
		{regs: []vReg{{"MOUNT", "/m/:a", "", "", ""}}, mounts: []int{1}},
		{regs: []vReg{{"GET", "/x/:b", "s", "", ""}, {"GET", "/y", "s", "", ""}}},
	}, names: []string{"a", "b"}, lens: []int{5, 7, 8}, methods: []string{"GET"}},
	/* 2*/ {apps: []vCompApp{
		{regs: []vReg{{"MOUNT", "/", "", "", ""}, {"GET", "/k", "s", "", ""}}, mounts: []int{1}},
		{regs: []vReg{{"GET", "/*", "n", "", ""}, {"GET", "/k", "n", "", ""}}},
	}, names: []string{"*1"}, lens: []int{1, 2, 3, 4}, methods: []string{"GET"}},
	/* 3*/ {apps: []vCompApp{
		{regs: []vReg{{"USE", "/", "n", "", ""}, {"MOUNT", "/a/", "", "", ""}}, mounts: []int{1}},
		{regs: []vReg{{"GET", "", "s", "", ""}, {"GET", "/b/", "s", "", ""}, {"POST", "/b", "s", "", ""}}},
	}, names: nil, lens: []int{2, 3, 4, 5}, methods: []string{"GET", "POST", "PUT"}},
	/* 4*/ {apps: []vCompApp{
		{regs: []vReg{{"MOUNT", "/o", "", "", ""}}, mounts: []int{1}},
		{regs: []vReg{{"GET", "/p", "n", "", ""}, {"MOUNT", "/i", "", "", ""}, {"GET", "/i/q", "s", "", ""}}, mounts: []int{2}},
		{regs: []vReg{{"GET", "/q", "n", "", ""}, {"USE", "/q", "n", "", ""}}},
	}, names: nil, lens: []int{4, 6}, methods: []string{"GET"}},
	/* 5*/ {apps: []vCompApp{
		{regs: []vReg{{"GET", "/g/v", "n", "", ""}, {"MOUNT", "/v", "", "", ""}}, mounts: []int{1}},
		{regs: []vReg{{"GET", "/", "s", "", ""}, {"GET", "/:id?", "s", "", ""}}},
	}, names: []string{"id"}, lens: []int{4, 5, 6}, methods: []string{"GET"}, grp: "/g"},
	/* 6*/ {apps: []vCompApp{
		{regs: []vReg{{"MOUNT", "/A", "", "", ""}}, mounts: []int{1}},
		{regs: []vReg{{"GET", "/Bc", "s", "", ""}, {"GET", "/d/", "s", "", ""}}},
	}, names: nil, lens: []int{2, 4, 5}, methods: []string{"GET"}},
	// prefixes spelled with a trailing slash, children spelled without a leading one
	/* 7*/ {apps: []vCompApp{
		{regs: []vReg{{"MOUNT", "v", "", "", ""}, {"GET", "/g/w", "s", "", ""}}, mounts: []int{1}},
		{regs: []vReg{{"GET", "x", "s", "", ""}, {"USE", "y/", "n", "", ""}, {"GET", "/y/z", "s", "", ""}}},
	}, names: nil, lens: []int{4, 6, 7, 8}, methods: []string{"GET"}, grp: "/g/"},
	/* 8*/ {apps: []vCompApp{
		{regs: []vReg{{"MOUNT", "/a/", "", "", ""}}, mounts: []int{1}},
		{regs: []vReg{{"MOUNT", "b", "", "", ""}, {"GET", "c", "s", "", ""}}, mounts: []int{2}},
		{regs: []vReg{{"GET", "d", "s", "", ""}}},
	}, names: nil, lens: []int{4, 6, 7}, methods: []string{"GET"}},
	// a sub-app mounted at the root whose routes are spelled with upper case and a trailing slash
	/* 9*/ {apps: []vCompApp{
		{regs: []vReg{{"MOUNT", "/", "", "", ""}, {"GET", "/z", "s", "", ""}}, mounts: []int{1}},
		{regs: []vReg{{"GET", "/Pr", "s", "", ""}, {"GET", "/it/", "s", "", ""}, {"USE", "/Q", "n", "", ""}}},
	}, names: nil, lens: []int{2, 3, 4}, methods: []string{"GET"}},
	// two sub-apps mounted on the same prefix, one directly after the other
	/*10*/ {apps: []vCompApp{
		{regs: []vReg{{"MOUNT", "/m", "", "", ""}, {"MOUNT", "/m", "", "", ""}, {"GET", "/m/z", "s", "", ""}}, mounts: []int{1, 2}},
		{regs: []vReg{{"GET", "/x", "s", "", ""}}},
		{regs: []vReg{{"GET", "/y", "s", "", ""}, {"POST", "/y", "s", "", ""}}},
	}, names: nil, lens: []int{4}, methods: []string{"GET", "POST", "PUT"}},
}

type vC04World struct {
	trace  []byte
	params []string
	names  []string
	behs   []byte
}

func (w *vC04World) handler(id int) Handler {
	return func(c Ctx) error {
		w.trace = append(w.trace, byte('A'+id))
		for _, n := range w.names {
			w.params = append(w.params, c.Params(n))
		}
		if w.behs[id] == 's' {
			return nil
		}
		return c.Next()
	}
}

func vSubPath(p string) string {
	// the path a (sub-)app records for a registration: "" means "/", a missing leading slash is added
	if p == "" {
		return "/"
	}
	if p[0] != '/' {
		return "/" + p
	}
	return p
}

func vJoinPath(prefix, path string) string {
	if path == "" {
		return prefix
	}
	for len(prefix) > 0 && prefix[len(prefix)-1] == '/' {
		prefix = prefix[:len(prefix)-1]
	}
	if path[0] != '/' {
		path = "/" + path
	}
	return prefix + path
}

// VH_C04_mount: case = compIndex*4 + cfgIndex.
func VH_C04_mount(caseID int) {
	subDefault := caseID >= 100 // sub-apps are created with the default config, the parent with cfg
	caseID %= 100
	comp := &vC04Catalogue[caseID/4]
	cfg := vCfgs[caseID%4]

	// ---- world A: real mounting
	wa := &vC04World{names: comp.names}
	nextID := 0
	var buildA func(ai int) *App
	ids := map[[2]int]int{} // (app, reg) -> first handler id, shared by both worlds
	buildA = func(ai int) *App {
		acfg := cfg
		if ai != 0 && subDefault {
			acfg = vCfgs[0]
		}
		a := vNewApp(acfg)
		mi := 0
		for ri, r := range comp.apps[ai].regs {
			if r.method == "MOUNT" {
				child := buildA(comp.apps[ai].mounts[mi])
				mi++
				if ai == 0 && comp.grp != "" {
					a.Group(comp.grp).Use(r.path, child)
				} else {
					a.Use(r.path, child)
				}
				continue
			}
			id := nextID
			nextID++
			ids[[2]int{ai, ri}] = id
			wa.behs = append(wa.behs, r.beh[0])
			if r.method == "USE" {
				a.Use(r.path, wa.handler(id))
			} else {
				a.Add([]string{r.method}, r.path, wa.handler(id))
			}
		}
		return a
	}
	appA := buildA(0)
	appA.startupProcess()

	// ---- world B: groups with the mount prefix at the same position
	wb := &vC04World{names: comp.names, behs: wa.behs}
	appB := vNewApp(cfg)
	var buildB func(ai int, router Router, root bool)
	buildB = func(ai int, router Router, root bool) {
		mi := 0
		for ri, r := range comp.apps[ai].regs {
			if r.method == "MOUNT" {
				var g Router
				if ai == 0 && comp.grp != "" {
					g = router.Group(comp.grp).Group(r.path)
				} else {
					g = router.Group(r.path)
				}
				buildB(comp.apps[ai].mounts[mi], g, false)
				mi++
				continue
			}
			id := ids[[2]int{ai, ri}]
			path := r.path
			if !root {
				path = vSubPath(path)
			}
			if r.method == "USE" {
				router.Use(path, wb.handler(id))
			} else {
				router.Add([]string{r.method}, path, wb.handler(id))
			}
		}
	}
	buildB(0, appB, true)
	appB.startupProcess()

	// ---- world C: flat registration on the root app under the spelled-out full path
	// (prefix and path joined by the documented rule: the prefix loses its trailing slashes, the
	// path gets a leading slash, an empty path is the prefix itself)
	wc := &vC04World{names: comp.names, behs: wa.behs}
	appC := vNewApp(cfg)
	var buildC func(ai int, prefix string, root bool)
	buildC = func(ai int, prefix string, root bool) {
		mi := 0
		for ri, r := range comp.apps[ai].regs {
			if r.method == "MOUNT" {
				pre := prefix
				if ai == 0 && comp.grp != "" {
					pre = vJoinPath(pre, comp.grp)
				}
				buildC(comp.apps[ai].mounts[mi], vJoinPath(pre, r.path), false)
				mi++
				continue
			}
			id := ids[[2]int{ai, ri}]
			path := r.path
			if !root {
				path = vJoinPath(prefix, vSubPath(path))
			}
			if r.method == "USE" {
				appC.Use(path, wc.handler(id))
			} else {
				appC.Add([]string{r.method}, path, wc.handler(id))
			}
		}
	}
	buildC(0, "", true)
	appC.startupProcess()

	method := comp.methods[vChoice("method", len(comp.methods))]
	n := comp.lens[vChoice("plen", len(comp.lens))]
	p := vString("path", n)
	vWirePath(p, false)

	fa := vDo(appA, method, p)
	fb := vDo(appB, method, p)
	fc := vDo(appC, method, p)
	vObserve("traceC", string(wc.trace))
	vAssert(string(wb.trace) == string(wc.trace), "group-same-handlers-as-full-paths")
	vAssert(fb.Response.StatusCode() == fc.Response.StatusCode(), "group-same-status-as-full-paths")
	if string(wb.trace) == string(wc.trace) && len(wb.params) == len(wc.params) {
		for k := range wb.params {
			vAssert(wb.params[k] == wc.params[k], "group-same-params-as-full-paths")
		}
	}

	vObserve("traceA", string(wa.trace))
	vObserve("traceB", string(wb.trace))
	vAssert(string(wa.trace) == string(wb.trace), "same-handlers")
	if string(wa.trace) == string(wb.trace) {
		vAssert(len(wa.params) == len(wb.params), "same-param-count")
		if len(wa.params) == len(wb.params) {
			for k := range wa.params {
				vAssert(wa.params[k] == wb.params[k], "same-params")
			}
		}
	}
	vAssert(fa.Response.StatusCode() == fb.Response.StatusCode(), "same-status")
	vAssert(string(fa.Response.Header.Peek(HeaderAllow)) == string(fb.Response.Header.Peek(HeaderAllow)), "same-allow")
	if len(wa.trace) > 0 {
		vReach("handlers-ran")
	} else {
		vReach("nothing-ran")
	}
}
