package fiber

// C01 — dispatch = registration-order first match; the lookup index is transparent.
//
// Oracle: a reference dispatcher that walks the flat registration-ordered stack and asks every
// route *individually* (Route.match) whether it matches; the bucket index (treeStack), the scan
// cursor and the method/path override handling of the real dispatcher are what is compared.

type vReg struct {
	method string // "GET", "POST", ..., "USE"
	path   string
	beh    string // one behaviour letter per handler: s stop, n next, r rewrite path to arg then next, m override method to arg then next
	arg    string
	grp    string // register through app.Group(grp)
}

type vTable struct {
	regs    []vReg
	lens    []int
	methods []string
	hi      bool // allow bytes >= 0x80 in the request path
}

var vC01Catalogue = []vTable{
	/* 0*/ {regs: []vReg{{"GET", "/a", "s", "", ""}, {"GET", "/a/b", "s", "", ""}, {"GET", "/abc", "s", "", ""}, {"POST", "/abc", "s", "", ""}},
		lens: []int{1, 2, 3, 4, 5}, methods: []string{"GET", "POST", "DELETE"}},
	/* 1*/ {regs: []vReg{{"USE", "/", "n", "", ""}, {"GET", "/x", "s", "", ""}, {"USE", "/x", "n", "", ""}, {"GET", "/x/y", "s", "", ""}},
		lens: []int{1, 2, 3, 4, 5}, methods: []string{"GET", "PUT"}},
	/* 2*/ {regs: []vReg{{"USE", "/api", "n", "", ""}, {"GET", "/api/v1", "s", "", ""}, {"GET", "/api/:id", "n", "", ""}, {"GET", "/*", "s", "", ""}},
		lens: []int{1, 4, 5, 6, 7}, methods: []string{"GET", "POST"}},
	/* 3*/ {regs: []vReg{{"GET", "/a/:x?", "n", "", ""}, {"GET", "/a", "s", "", ""}, {"POST", "/a/*", "s", "", ""}},
		lens: []int{1, 2, 3, 4}, methods: []string{"GET", "POST", "PUT"}},
	/* 4*/ {regs: []vReg{{"GET", "/d", "n", "", ""}, {"GET", "/d", "s", "", ""}, {"POST", "/d", "s", "", ""}, {"PUT", "/d/:x", "s", "", ""}},
		lens: []int{2, 3, 4}, methods: []string{"GET", "POST", "PUT", "PATCH"}},
	/* 5*/ {regs: []vReg{{"GET", "/old/x", "s", "", ""}, {"USE", "/", "r", "/new", ""}, {"GET", "/new", "s", "", ""}},
		lens: []int{1, 4, 6}, methods: []string{"GET"}},
	/* 6*/ {regs: []vReg{{"POST", "/m", "n", "", ""}, {"USE", "/", "m", "PUT", ""}, {"PUT", "/m", "s", "", ""}, {"POST", "/m", "s", "", ""}},
		lens: []int{1, 2, 3}, methods: []string{"POST", "PUT", "GET"}},
	/* 7*/ {regs: []vReg{{"GET", "/:x", "n", "", ""}, {"GET", "/abc", "s", "", ""}, {"GET", "/:x/:y", "s", "", ""}},
		lens: []int{2, 4, 5, 6}, methods: []string{"GET"}},
	/* 8*/ {regs: []vReg{{"GET", "/a", "s", "", "/g"}, {"GET", "/g/:p", "s", "", ""}, {"USE", "/", "n", "", "/g"}, {"GET", "/b", "s", "", "/g"}},
		lens: []int{2, 4, 5}, methods: []string{"GET", "POST"}},
	/* 9*/ {regs: []vReg{{"GET", "/s/*", "n", "", ""}, {"GET", "/s/x", "s", "", ""}, {"GET", "/s/+", "s", "", ""}},
		lens: []int{2, 3, 4, 5}, methods: []string{"GET"}},
	/*10*/ {regs: []vReg{{"GET", "/abc/:x?", "n", "", ""}, {"GET", "/abc", "s", "", ""}, {"GET", "/ab", "s", "", ""}},
		lens: []int{3, 4, 5, 6}, methods: []string{"GET", "POST"}},
	/*11*/ {regs: []vReg{{"GET", "/Abc", "s", "", ""}, {"GET", "/abc", "s", "", ""}, {"POST", "/ABC", "s", "", ""}},
		lens: []int{4, 5}, methods: []string{"GET", "POST"}},
	/*12*/ {regs: []vReg{{"GET", "/h", "ns", "", ""}, {"GET", "/h/:a", "nn", "", ""}, {"GET", "/h/x", "s", "", ""}},
		lens: []int{2, 4}, methods: []string{"GET"}},
	/*13*/ {regs: []vReg{{"GET", "/\xc3\xbc/x", "s", "", ""}, {"USE", "/\xc3\xbc", "n", "", ""}, {"POST", "/\xc3\xbc/x", "s", "", ""}},
		lens: []int{3, 5}, methods: []string{"GET", "POST", "PUT"}, hi: true},
	/*14*/ {regs: []vReg{{"GET", "/ab/cd", "n", "", ""}, {"USE", "/ab", "r", "/xy/z", ""}, {"GET", "/xy/:q", "s", "", ""}, {"GET", "/ab/cd", "s", "", ""}},
		lens: []int{3, 6}, methods: []string{"GET"}},
	/*15*/ {regs: []vReg{{"GET", "/p/:a-:b", "s", "", ""}, {"GET", "/p/:a", "s", "", ""}, {"HEAD", "/p/x", "s", "", ""}},
		lens: []int{4, 5, 6}, methods: []string{"GET", "HEAD", "OPTIONS"}},
	// one registration for several methods followed by same-path registrations per method (the
	// dispatcher merges same-path neighbours into one route)
	/*16*/ {regs: []vReg{{"GET,POST", "/a", "nnnnn", "", ""}, {"GET", "/a", "s", "", ""}, {"POST", "/a", "s", "", ""}},
		lens: []int{2, 3}, methods: []string{"GET", "POST", "PUT"}},
	/*17*/ {regs: []vReg{{"GET,POST,PUT", "/b", "nnn", "", ""}, {"PUT", "/b", "nn", "", ""}, {"GET", "/b", "n", "", ""}, {"POST", "/b", "s", "", ""}, {"GET", "/b", "s", "", ""}},
		lens: []int{2}, methods: []string{"GET", "POST", "PUT"}},
	// escaped pattern characters next to their parameterised twins
	/*18*/ {regs: []vReg{{"GET", "/f/:n", "n", "", ""}, {"GET", "/f/\\:n", "s", "", ""}, {"GET", "/f/:n", "s", "", ""}},
		lens: []int{4, 5}, methods: []string{"GET"}},
}

var (
	vProbe    bool
	vProbeOut int
)

type vC01World struct {
	tb    *vTable
	trace []byte
	behs  []byte   // behaviour per handler id
	args  []string // argument per handler id
	regOf []int    // registration index per handler id

	refApps     []*App  // per registration: an app holding only that registration
	regHandlers [][]int // per registration: its handler ids in order
}

func vProbeID(h Handler) int {
	vProbe = true
	_ = h(nil)
	vProbe = false
	return vProbeOut
}

func (w *vC01World) handler(id int) Handler {
	return func(c Ctx) error {
		if vProbe {
			vProbeOut = id
			return nil
		}
		if id < 0 {
			return nil
		}
		w.trace = append(w.trace, byte('A'+id))
		switch w.behs[id] {
		case 's':
			return nil
		case 'r':
			c.Path(w.args[id])
		case 'm':
			c.Method(w.args[id])
		}
		return c.Next()
	}
}

func vC01Register(router Router, r vReg, hs []Handler) {
	if r.method == "USE" {
		args := []any{r.path}
		for _, h := range hs {
			args = append(args, h)
		}
		router.Use(args...)
		return
	}
	var methods []string
	start := 0
	for i := 0; i <= len(r.method); i++ {
		if i == len(r.method) || r.method[i] == ',' {
			methods = append(methods, r.method[start:i])
			start = i + 1
		}
	}
	router.Add(methods, r.path, hs[0], hs[1:]...)
}

// refRoute: the route object registration ri produced for method index mi in its own app.
func (w *vC01World) refRoute(ri, mi int) *Route {
	st := w.refApps[ri].stack[mi]
	if len(st) == 0 {
		return nil
	}
	return st[len(st)-1]
}

func vDetection(cfg vCfg, p string) string {
	d := p
	if !cfg.cs {
		d = vLower(d)
	}
	if !cfg.strict && len(d) > 1 && d[len(d)-1] == '/' {
		d = vTrimSlashes(d)
		if d == "" {
			d = "/"
		}
	}
	return d
}

type vCustomCtx struct {
	DefaultCtx
}

// VH_C01_dispatch: case = tableIndex*16 + custom*8 + cfgIndex(0..3 used).
func VH_C01_dispatch(caseID int) {
	tb := &vC01Catalogue[caseID/16]
	custom := (caseID/8)%2 == 1
	cfg := vCfgs[caseID%8]
	app := vNewApp(cfg)
	if custom {
		app.NewCtxFunc(func(app *App) CustomCtx {
			return &vCustomCtx{DefaultCtx: *NewDefaultCtx(app)}
		})
	}
	w := &vC01World{tb: tb}
	groups := map[string]Router{}
	for ri, r := range tb.regs {
		var hs []Handler
		for k := 0; k < len(r.beh); k++ {
			id := len(w.behs)
			w.behs = append(w.behs, r.beh[k])
			w.args = append(w.args, r.arg)
			w.regOf = append(w.regOf, ri)
			hs = append(hs, w.handler(id))
		}
		var router Router = app
		if r.grp != "" {
			g, ok := groups[r.grp]
			if !ok {
				g = app.Group(r.grp)
				groups[r.grp] = g
			}
			router = g
		}
		vC01Register(router, r, hs)
		// the reference matcher of this registration: the same registration alone in its own app
		// (no neighbours to merge with, no shared handler slices)
		refApp := vNewApp(cfg)
		var refRouter Router = refApp
		if r.grp != "" {
			refRouter = refApp.Group(r.grp)
		}
		vC01Register(refRouter, r, []Handler{w.handler(-1)})
		refApp.startupProcess()
		w.refApps = append(w.refApps, refApp)
		var hid []int
		for k := 0; k < len(r.beh); k++ {
			hid = append(hid, len(w.behs)-len(r.beh)+k)
		}
		w.regHandlers = append(w.regHandlers, hid)
	}
	app.startupProcess()

	method := tb.methods[vChoice("method", len(tb.methods))]
	n := tb.lens[vChoice("plen", len(tb.lens))]
	p := vString("path", n)
	if tb.hi {
		vAssume(p[0] == '/')
		if len(p) > 1 {
			vAssume(p[1] != '/')
		}
		for i := 0; i < len(p); i++ {
			c := p[i]
			vAssume(c > 0x20)
			vAssume(c != 0x7f)
			vAssume(c != '?')
			vAssume(c != '#')
			vAssume(c != '%')
		}
	} else {
		vWirePath(p, false)
	}

	// ---- the real dispatcher
	fctx := vDo(app, method, p)
	gotTrace := string(w.trace)
	gotStatus := fctx.Response.StatusCode()
	gotAllow := string(fctx.Response.Header.Peek(HeaderAllow))

	// ---- the reference dispatcher
	curM, curP := method, p
	cursor := -1 // registration index of the last executed handler
	matched := false
	stopped := false
	var want []byte
	var tmp [maxParams]string
	overrideAt := -1 // length of the trace when the first effective path/method override happened
	for !stopped {
		mi := app.methodInt(curM)
		hit := -1
		hitUse := false
		det := vDetection(cfg, curP)
		for ri := cursor + 1; ri < len(tb.regs); ri++ {
			r := w.refRoute(ri, mi)
			if r == nil || r.mount {
				continue
			}
			if r.match(det, curP, &tmp) {
				hit = ri
				hitUse = r.use
				break
			}
		}
		if hit < 0 {
			break
		}
		if !hitUse {
			matched = true
		}
		for _, id := range w.regHandlers[hit] {
			cursor = hit
			want = append(want, byte('A'+id))
			b := w.behs[id]
			if b == 's' {
				stopped = true
				break
			}
			if b == 'r' {
				if curP != w.args[id] && overrideAt < 0 {
					overrideAt = len(want)
				}
				curP = w.args[id]
			}
			if b == 'm' {
				if curM != w.args[id] && overrideAt < 0 {
					overrideAt = len(want)
				}
				curM = w.args[id]
			}
		}
	}
	// known finding: after a handler overrides the path or the method, the scan cursor (an index
	// into the previous lookup bucket) is reused in the new bucket; everything up to the override
	// must still agree.
	if overrideAt >= 0 && len(gotTrace) >= overrideAt {
		vKnown("C01-K1-override-cursor", gotTrace[:overrideAt] == string(want[:overrideAt]))
	}
	vObserve("got", gotTrace)
	vObserve("want", string(want))
	vAssert(gotTrace == string(want), "handler-trace")
	if stopped {
		vReach("handled")
		vAssert(gotStatus == StatusOK, "status-200")
		return
	}
	// chain exhausted
	wantStatus := StatusNotFound
	wantAllow := ""
	if !matched {
		det := vDetection(cfg, curP)
		cur := app.methodInt(curM)
		for mi, m := range app.config.RequestMethods {
			if mi == cur {
				continue
			}
			for ri := range tb.regs {
				r := w.refRoute(ri, mi)
				if r == nil || r.use || r.mount {
					continue
				}
				if r.match(det, curP, &tmp) {
					if wantAllow != "" {
						wantAllow += ", "
					}
					wantAllow += m
					wantStatus = StatusMethodNotAllowed
					break
				}
			}
		}
	}
	if wantStatus == StatusNotFound {
		vReach("404")
	} else {
		vReach("405")
	}
	vAssert(gotStatus == wantStatus, "status")
	vAssert(gotAllow == wantAllow, "allow")
}
