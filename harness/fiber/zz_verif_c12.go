package fiber

// C12 — flash messages and old input survive the redirect round trip intact, only once.

import (
	"bufio"
	"bytes"

	"github.com/tinylib/msgp/msgp"
	"github.com/valyala/fasthttp"
)

func vSymMsg(tag string, maxLen int) redirectionMsg {
	m := redirectionMsg{}
	m.key = vString(tag+"key", vLen(tag+"klen", 0, maxLen))
	m.value = vString(tag+"val", vLen(tag+"vlen", 0, maxLen))
	m.level = vByte(tag + "level")
	m.isOldInput = vBool(tag + "old")
	return m
}

// VH_C12_roundtrip: decode(encode(m)) == m into a dirty (reused) target. case = number of messages.
func VH_C12_roundtrip(n int) {
	msgs := make(redirectionMsgs, n)
	for k := range msgs {
		msgs[k] = vSymMsg("m"+string(rune('0'+k)), 2)
	}
	enc, err := msgs.MarshalMsg(nil)
	vAssert(err == nil, "encodes")
	// a reused target: stale entries from an earlier request, capacity larger than needed
	target := make(redirectionMsgs, 3, 4)
	for k := range target {
		target[k] = redirectionMsg{key: "stale", value: "secret", level: 9, isOldInput: k%2 == 0}
	}
	target = target[:0]
	rest, err := target.UnmarshalMsg(enc)
	vAssert(err == nil, "decodes")
	vAssert(len(rest) == 0, "consumes-all")
	vAssert(len(target) == n, "count")
	if len(target) == n {
		for k := range msgs {
			vAssert(target[k].key == msgs[k].key, "key")
			vAssert(target[k].value == msgs[k].value, "value")
			vAssert(target[k].level == msgs[k].level, "level")
			vAssert(target[k].isOldInput == msgs[k].isOldInput, "isOldInput")
		}
	}
	vReach("roundtrip")
}

// VH_C12_hostile: arbitrary bytes as the cookie value. case = cookie length.
func VH_C12_hostile(n int) {
	app := vNewApp(vCfgs[0])
	cookie := vBytes("cookie", n)
	// bytes a Cookie header can carry past fasthttp's cookie splitter
	for i := 0; i < len(cookie); i++ {
		vAssume(cookie[i] != ';')
		vAssume(cookie[i] != ' ')
		vAssume(cookie[i] != '"')
	}
	fctx := &fasthttp.RequestCtx{}
	fctx.Request.Header.SetMethod("GET")
	fctx.Request.SetRequestURI("/")
	fctx.Request.Header.SetCookieBytesKV([]byte(FlashCookieName), cookie)
	c, _ := app.AcquireCtx(fctx).(*DefaultCtx)
	// the pooled context was used before: stale entries live in the slice's backing array
	c.flashMessages = append(c.flashMessages[:0], redirectionMsg{key: "stale", value: "secret"}, redirectionMsg{key: "stale2", value: "secret2", isOldInput: true})
	c.flashMessages = c.flashMessages[:0]

	// memory: proportional to the cookie length (40-byte elements, at most one per cookie byte)
	vAllocBudget(64*n + 512)
	c.Redirect().parseAndClearFlashMessages()
	vAllocBudget(-1)

	msgs := c.Redirect().Messages()
	olds := c.Redirect().OldInputs()
	// reference: is the cookie a well-formed encoding? (an array header announcing more elements
	// than there are bytes is truncated by definition; the reference decoder is only run otherwise)
	var probe redirectionMsgs
	cp := make([]byte, len(cookie))
	copy(cp, cookie)
	var err error
	if cnt, _, herr := msgp.ReadArrayHeaderBytes(cp); herr != nil || int64(cnt) > int64(len(cp)) {
		err = msgp.ErrShortBytes
	} else {
		_, err = probe.UnmarshalMsg(cp)
	}
	if err != nil {
		vReach("malformed")
		vAssert(len(msgs) == 0, "malformed-no-messages")
		vAssert(len(olds) == 0, "malformed-no-old-input")
	} else {
		vReach("wellformed")
		vAssert(len(msgs)+len(olds) == len(probe), "wellformed-count")
	}
	for _, m := range msgs {
		vAssert(vAnd(m.Value != "secret", m.Value != "secret2"), "no-stale-message")
	}
	for _, o := range olds {
		vAssert(vAnd(o.Value != "secret", o.Value != "secret2"), "no-stale-input")
	}
	app.ReleaseCtx(c)
}

func vValidCookieOctet(c byte) bool {
	// RFC 6265 cookie-octet: US-ASCII excluding CTLs, whitespace, DQUOTE, comma, semicolon, backslash
	return vAnd(vAnd(c > 0x20, c < 0x7f), vAnd(vAnd(c != '"', c != ','), vAnd(c != ';', c != '\\')))
}

// VH_C12_exchange: issue -> present -> expire -> absent. case = number of messages (1..2).
func VH_C12_exchange(n int) {
	app := vNewApp(vCfgs[0])
	var sent []redirectionMsg
	for k := 0; k < n; k++ {
		m := vSymMsg("m"+string(rune('0'+k)), 2)
		m.isOldInput = false
		sent = append(sent, m)
	}
	if n == 2 {
		vAssume(sent[0].key != sent[1].key)
	}
	var seen []FlashMessage
	app.Get("/issue", func(c Ctx) error {
		r := c.Redirect()
		for _, m := range sent {
			r.With(m.key, m.value, m.level)
		}
		return r.To("/show")
	})
	app.Get("/show", func(c Ctx) error {
		seen = c.Redirect().Messages()
		return nil
	})
	app.startupProcess()

	// 1. issue
	f1 := vDo(app, "GET", "/issue")
	vAssert(f1.Response.StatusCode() == StatusFound, "redirect-status")
	var ck fasthttp.Cookie
	ck.SetKey(FlashCookieName)
	has := f1.Response.Header.Cookie(&ck)
	vAssert(has, "cookie-issued")
	val := append([]byte(nil), ck.Value()...)

	// 2. the client presents the cookie (API level: no wire re-encoding)
	present := func(withCookie bool) *fasthttp.RequestCtx {
		fctx := &fasthttp.RequestCtx{}
		fctx.Request.Header.SetMethod("GET")
		fctx.Request.SetRequestURI("/show")
		if withCookie {
			fctx.Request.Header.SetCookieBytesKV([]byte(FlashCookieName), val)
		}
		c, _ := app.AcquireCtx(fctx).(*DefaultCtx)
		if withCookie {
			c.Redirect().parseAndClearFlashMessages()
		}
		_, _ = app.next(c)
		app.ReleaseCtx(c)
		return fctx
	}
	// known finding K1 (raw msgpack in the cookie): a value byte that the cookie splitter treats
	// specially (';', space, '"') truncates the value even at the API level
	special := false
	// (CR and LF are replaced by a space when the cookie is written, see the header-injection fix)
	isSpecial := func(c byte) bool { return vOr(vOr(c == ';', vOr(c == ' ', c == '"')), vOr(c == '\r', c == '\n')) }
	for _, m := range sent {
		special = vOr(special, isSpecial(m.level))
		for i := 0; i < len(m.key); i++ {
			special = vOr(special, isSpecial(m.key[i]))
		}
		for i := 0; i < len(m.value); i++ {
			special = vOr(special, isSpecial(m.value[i]))
		}
	}
	vKnown("C12-K1-raw-msgpack-cookie", special)
	seen = nil
	f2 := present(true)
	vAssert(len(seen) == n, "delivered-count")
	if len(seen) == n {
		for k := range sent {
			vAssert(seen[k].Key == sent[k].key, "delivered-key")
			vAssert(seen[k].Value == sent[k].value, "delivered-value")
			vAssert(seen[k].Level == sent[k].level, "delivered-level")
		}
	}
	// the response expires the cookie
	var ck2 fasthttp.Cookie
	ck2.SetKey(FlashCookieName)
	has2 := f2.Response.Header.Cookie(&ck2)
	vAssert(has2, "expiring-cookie-present")
	if has2 {
		vAssert(!ck2.Expire().After(fasthttp.CookieExpireDelete), "cookie-expired-after-read")
		vAssert(len(ck2.Value()) == 0, "expiring-cookie-empty")
	}

	// 3. a request without the cookie (served by the same pooled context) sees nothing
	seen = nil
	present(false)
	vAssert(len(seen) == 0, "absent-cookie-no-messages")
	vReach("exchange")

	// wire safety of the issued value (known finding: raw msgpack bytes); last, because it fails
	// for every input
	safe := true
	for i := 0; i < len(val); i++ {
		safe = vAnd(safe, vValidCookieOctet(val[i]))
	}
	vKnown("C12-K1-raw-msgpack-cookie", true)
	vAssert(safe, "cookie-value-wire-safe")
}

func vLetters(name string, lo, hi int) string {
	s := vString(name, vLen(name+"len", lo, hi))
	for i := 0; i < len(s); i++ {
		vAssume(vAnd(s[i] >= 'a', s[i] <= 'z'))
	}
	return s
}

// VH_C12_mixed: flash messages and old input in one redirect; a message key may equal a submitted
// field name. case%2 0: WithInput() then With(); 1: With() then WithInput(); case/2: the redirect is
// issued with To / Route / Route with Queries / Back.
// (letters only: the raw-msgpack cookie finding K1 is about other bytes)
func VH_C12_mixed(caseID int) {
	app := vNewApp(vCfgs[0])
	field := vLetters("field", 1, 1)
	fval := vLetters("fval", 0, 2)
	mkey := vLetters("mkey", 1, 1)
	mval := vLetters("mval", 0, 2)
	app.Get("/issue", func(c Ctx) error {
		r := c.Redirect()
		if caseID%2 == 0 {
			r.WithInput().With(mkey, mval, 2)
		} else {
			r.With(mkey, mval, 2).WithInput()
		}
		switch caseID / 2 {
		case 1:
			return r.Route("show")
		case 2:
			return r.Route("show", RedirectConfig{Queries: map[string]string{"a": "1"}})
		case 3:
			return r.Back("/show")
		}
		return r.To("/show")
	})
	var msgs []FlashMessage
	var olds []OldInputData
	app.Get("/show", func(c Ctx) error {
		msgs = c.Redirect().Messages()
		olds = c.Redirect().OldInputs()
		return nil
	}).Name("show")
	app.startupProcess()
	f1 := vDo(app, "GET", "/issue?"+field+"="+fval)
	vAssert(f1.Response.StatusCode() == StatusFound, "redirect-status")
	var ck fasthttp.Cookie
	ck.SetKey(FlashCookieName)
	vAssert(f1.Response.Header.Cookie(&ck), "cookie-issued")
	val := append([]byte(nil), ck.Value()...)

	fctx := &fasthttp.RequestCtx{}
	fctx.Request.Header.SetMethod("GET")
	fctx.Request.SetRequestURI("/show")
	fctx.Request.Header.SetCookieBytesKV([]byte(FlashCookieName), val)
	c, _ := app.AcquireCtx(fctx).(*DefaultCtx)
	c.Redirect().parseAndClearFlashMessages()
	_, _ = app.next(c)
	app.ReleaseCtx(c)

	vAssert(len(msgs) == 1, "one-message")
	if len(msgs) == 1 {
		vAssert(msgs[0].Key == mkey, "message-key")
		vAssert(msgs[0].Value == mval, "message-value")
		vAssert(msgs[0].Level == 2, "message-level")
	}
	vAssert(len(olds) == 1, "one-old-input")
	if len(olds) == 1 {
		vAssert(olds[0].Key == field, "old-input-key")
		vAssert(olds[0].Value == fval, "old-input-value")
	}
	vReach("mixed")
}

// VH_C12_entry: the follow-up request enters through the application's real request handler, parsed
// from wire bytes (so RawHeaders is filled and the handler itself decides whether to decode the
// cookie), with each standard method (a 307/308 redirect preserves the method). case = method index
// (+10: custom context).
// The message is concrete and wire-safe: the wire parser runs on concrete bytes.
func VH_C12_entry(mi int) {
	methods := []string{MethodGet, MethodHead, MethodPost, MethodPut, MethodDelete, MethodPatch, MethodOptions}
	method := methods[mi%10]
	app := vNewApp(vCfgs[0])
	if mi >= 10 {
		// 10+i: an application with a custom context (its own request handler has the same gate)
		app.NewCtxFunc(func(app *App) CustomCtx {
			return &vCustomCtx{DefaultCtx: *NewDefaultCtx(app)}
		})
	}
	app.Get("/issue", func(c Ctx) error {
		return c.Redirect().Status(StatusTemporaryRedirect).With("k", "v", 35).To("/show")
	})
	var seen []FlashMessage
	ran := false
	app.All("/show", func(c Ctx) error {
		ran = true
		seen = c.Redirect().Messages()
		return nil
	})
	app.startupProcess()
	f1 := vDo(app, "GET", "/issue")
	var ck fasthttp.Cookie
	ck.SetKey(FlashCookieName)
	vAssert(f1.Response.Header.Cookie(&ck), "entry-cookie-issued")
	val := append([]byte(nil), ck.Value()...)
	// (the issued bytes are raw msgpack, known finding C12-K1; this message has no byte fasthttp's
	// request parser rejects, which "entry-wire-parse" confirms)
	present := func(withCookie bool) *fasthttp.RequestCtx {
		raw := []byte(method + " /show HTTP/1.1\r\nHost: h\r\n")
		if withCookie {
			raw = append(raw, "Cookie: "+FlashCookieName+"="...)
			raw = append(raw, val...)
			raw = append(raw, "\r\n"...)
		}
		raw = append(raw, "Content-Length: 0\r\n\r\n"...)
		fctx := &fasthttp.RequestCtx{}
		err := fctx.Request.Read(bufio.NewReader(bytes.NewReader(raw)))
		vAssert(err == nil, "entry-wire-parse")
		app.Handler()(fctx)
		return fctx
	}
	seen, ran = nil, false
	f2 := present(true)
	vAssert(ran, "entry-handler-ran")
	vAssert(len(seen) == 1, "entry-delivered-count")
	if len(seen) == 1 {
		vAssert(vAnd(seen[0].Key == "k", vAnd(seen[0].Value == "v", seen[0].Level == 35)), "entry-delivered")
	}
	var ck2 fasthttp.Cookie
	ck2.SetKey(FlashCookieName)
	has2 := f2.Response.Header.Cookie(&ck2)
	vAssert(has2, "entry-expiring-cookie-present")
	if has2 {
		vAssert(!ck2.Expire().After(fasthttp.CookieExpireDelete), "entry-cookie-expired-after-read")
	}
	seen, ran = nil, false
	present(false)
	vAssert(ran, "entry-handler-ran-2")
	vAssert(len(seen) == 0, "entry-absent-cookie-no-messages")
	vReach("entry")
}
