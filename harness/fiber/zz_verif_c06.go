package fiber

// C06 — with Immutable, values taken from the context stay valid while later requests reuse the
// same context and connection buffers. The later history is a second, fully symbolic request
// served on the SAME fasthttp.RequestCtx (buffers are overwritten by the real code) and the same
// pooled DefaultCtx.

import (
	"github.com/valyala/fasthttp"
)

var vC06Accessors = []string{
	/* 0*/ "Params",
	/* 1*/ "Path",
	/* 2*/ "OriginalURL",
	/* 3*/ "Protocol",
	/* 4*/ "Query",
	/* 5*/ "Get",
	/* 6*/ "Cookies",
	/* 7*/ "Host",
	/* 8*/ "Hostname",
	/* 9*/ "Body",
	/*10*/ "BodyRaw",
	/*11*/ "BaseURL",
	/*12*/ "Method",
	/*13*/ "Body-identity-encoding",
	/*14*/ "GetReqHeaders",
	/*15*/ "Queries",
	/*16*/ "Params-generic",
	/*17*/ "Route-Path",
	/*18*/ "IP-validated",
	/*19*/ "IP-header",
	/*20*/ "IPs",
	/*21*/ "Subdomains",
	/*22*/ "Host-forwarded-list",
	/*23*/ "Hostname-forwarded",
}

func vToken(name string, n int) string {
	s := vString(name, n)
	for i := 0; i < len(s); i++ {
		c := s[i]
		// unreserved URL / token characters: the value reaches the accessor unchanged
		vAssume(vOr(vOr(vAnd(c >= 'a', c <= 'z'), vAnd(c >= 'A', c <= 'Z')), vOr(vAnd(c >= '0', c <= '9'), vOr(c == '-', c == '_'))))
	}
	return s
}

// VH_C06_immutable: case = accessor index (+100: Immutable off, checks correctness inside the handler only).
func VH_C06_immutable(caseID int) {
	immutable := caseID < 100
	acc := vC06Accessors[caseID%100]
	vStub("html.EscapeString=identity")
	vStub("fasthttp.normalizePath=skip")
	app := New(Config{Immutable: immutable, ErrorHandler: vStatusOnly, ProxyHeader: "X-Fwd", EnableIPValidation: acc == "IP-validated" || acc == "IPs"})
	var kept string
	var keptB []byte
	inHandler := ""
	phase := 1
	app.All("/u/:v", func(c Ctx) error {
		if phase != 1 {
			return nil
		}
		switch acc {
		case "Params":
			kept = c.Params("v")
		case "Params-generic":
			kept = Params[string](c, "v")
		case "Path":
			kept = c.Path()
		case "OriginalURL":
			kept = c.OriginalURL()
		case "Protocol":
			kept = c.Protocol()
		case "Query":
			kept = c.Query("q")
		case "Queries":
			kept = c.Queries()["q"]
		case "Get":
			kept = c.Get("X-Val")
		case "GetReqHeaders":
			if l := c.GetReqHeaders()["X-Val"]; len(l) > 0 {
				kept = l[0]
			}
		case "Cookies":
			kept = c.Cookies("ck")
		case "Host":
			kept = c.Host()
		case "Hostname":
			kept = c.Hostname()
		case "Body", "Body-identity-encoding":
			keptB = c.Body()
		case "BodyRaw":
			keptB = c.BodyRaw()
		case "BaseURL":
			kept = c.BaseURL()
		case "Method":
			kept = c.Method()
		case "Route-Path":
			kept = c.Route().Path
		case "IP-validated", "IP-header":
			kept = c.IP()
		case "IPs":
			if l := c.IPs(); len(l) == 2 {
				kept = l[1]
			}
		case "Subdomains":
			if l := c.Subdomains(1); len(l) == 1 {
				kept = l[0]
			}
		case "Host-forwarded-list":
			kept = c.Host()
		case "Hostname-forwarded":
			kept = c.Hostname()
		}
		if keptB != nil {
			inHandler = string(keptB)
		} else {
			inHandler = string(append([]byte(nil), kept...))
		}
		return nil
	})
	app.startupProcess()

	// only the tokens the accessor depends on are symbolic, the others are fixed
	rel := map[string]string{"Params": "v", "Params-generic": "v", "Path": "v", "OriginalURL": "vq", "Route-Path": "v", "Protocol": "v",
		"Query": "q", "Queries": "q", "Cookies": "q", "Get": "h", "GetReqHeaders": "h", "Host": "h", "Hostname": "h", "BaseURL": "h",
		"Body": "b", "BodyRaw": "b", "Body-identity-encoding": "b", "Method": "v",
		"IP-validated": "i", "IP-header": "i", "IPs": "i", "Subdomains": "h",
		"Host-forwarded-list": "h", "Hostname-forwarded": "h"}[acc]
	tok := func(kind byte, name string, n int, fixed string) string {
		for i := 0; i < len(rel); i++ {
			if rel[i] == kind {
				t := vToken(name, n)
				if kind == 'i' {
					vAssume(vAnd(t[0] >= '1', t[0] <= '9'))
				}
				if kind == 'h' {
					// host names are lower-cased by fasthttp
					for j := 0; j < len(t); j++ {
						vAssume(vOr(t[j] < 'A', t[j] > 'Z'))
					}
				}
				return t
			}
		}
		return fixed
	}
	// ---- request 1
	v1 := tok('v', "v1", 2, "v1")
	q1 := tok('q', "q1", 2, "q1")
	h1 := tok('h', "h1", 2, "h1")
	b1 := tok('b', "b1", 3, "bd1")
	i1 := tok('i', "i1", 1, "7")
	fctx := &fasthttp.RequestCtx{}
	ipd := i1
	fill := func(v, q, h, b string) {
		fctx.Request.Header.Set("X-Fwd", "10.0.0."+ipd)
		fctx.Request.Header.Set("X-Forwarded-For", "10.0.0."+ipd+", 10.0.1."+ipd)
		if acc == "Host-forwarded-list" {
			fctx.Request.Header.Set("X-Forwarded-Host", h+".fw.io, proxy.io")
		}
		if acc == "Hostname-forwarded" {
			fctx.Request.Header.Set("X-Forwarded-Host", h+".fw.io:8080")
		}
		fctx.Request.Header.SetMethod("POST")
		fctx.Request.SetRequestURI("/u/" + v + "?q=" + q)
		fctx.Request.Header.SetHost(h + ".io")
		fctx.Request.Header.Set("X-Val", h)
		fctx.Request.Header.SetCookie("ck", q)
		if acc == "Body-identity-encoding" {
			fctx.Request.Header.Set("Content-Encoding", "identity")
		}
		fctx.Request.SetBodyString(b)
	}
	fill(v1, q1, h1, b1)
	if acc == "Protocol" {
		fctx.Request.Header.SetProtocol("HTTP/1.0")
	}
	app.Handler()(fctx)

	// what the request really contained
	want := ""
	switch acc {
	case "Params", "Params-generic":
		want = v1
	case "Path":
		want = "/u/" + v1
	case "OriginalURL":
		want = "/u/" + v1 + "?q=" + q1
	case "Protocol":
		want = "HTTP/1.0"
	case "Query", "Queries", "Cookies":
		want = q1
	case "Get", "GetReqHeaders":
		want = h1
	case "Host":
		want = h1 + ".io"
	case "Hostname":
		want = h1 + ".io"
	case "Body", "BodyRaw", "Body-identity-encoding":
		want = b1
	case "BaseURL":
		want = "http://" + h1 + ".io"
	case "Method":
		want = "POST"
	case "Route-Path":
		want = "/u/:v"
	case "IP-validated", "IP-header":
		want = "10.0.0." + i1
	case "IPs":
		want = "10.0.1." + i1
	case "Subdomains":
		want = h1
	case "Host-forwarded-list", "Hostname-forwarded":
		want = h1 + ".fw.io"
	}
	vAssert(inHandler == want, "correct-inside-handler")
	if !immutable {
		vReach("checked")
		return
	}

	// ---- the later history: another request on the same connection context and pooled DefaultCtx
	phase = 2
	fctx.Request.Reset()
	fctx.Response.Reset()
	v2 := tok('v', "v2", 2, "v2")
	q2 := tok('q', "q2", 2, "q2")
	h2 := tok('h', "h2", 2, "h2")
	b2 := tok('b', "b2", 3, "bd2")
	ipd = tok('i', "i2", 1, "8")
	fill(v2, q2, h2, b2)
	if acc == "Protocol" {
		fctx.Request.Header.SetProtocol("HTTP/1.1")
	}
	if acc == "Method" {
		fctx.Request.Header.SetMethod("PUT")
	}
	app.Handler()(fctx)

	if keptB != nil {
		vAssert(string(keptB) == want, "value-stays-valid")
	} else {
		vAssert(kept == want, "value-stays-valid")
	}
	vReach("checked")
}
