package cors

// C19 — CORS headers go only to allowed origins and never pair '*' with credentials.

import (
	"strings"

	"github.com/gofiber/fiber/v3"
	"github.com/valyala/fasthttp"
)

type vEntry struct {
	wildcard bool
	scheme   string // "http" or "https"
	domain   string // host[:port] (for wildcard entries: the part after "*.")
}

type vCorsCfg struct {
	entries  []vEntry
	all      bool   // AllowOrigins contains "*" / is empty without func
	fn       string // "": no func; "always": func true; otherwise func(origin) == fn
	creds    bool
	private  bool
	maxAge   int
	headers  []string
	maxHost  int
}

var vC19Catalogue = []vCorsCfg{
	/*0*/ {entries: []vEntry{{false, "https", "a.io"}}, maxHost: 6},
	/*1*/ {entries: []vEntry{{false, "https", "a.io"}, {false, "http", "b.io"}}, creds: true, maxHost: 5},
	/*2*/ {entries: []vEntry{{true, "https", "a.io"}}, maxHost: 7},
	/*3*/ {entries: []vEntry{{true, "http", "a.io:81"}}, creds: true, maxHost: 9},
	/*4*/ {all: true, maxHost: 4},
	/*5*/ {fn: "https://f.io", creds: true, maxHost: 5},
	/*6*/ {entries: []vEntry{{true, "https", "a.io"}, {false, "https", "a.io"}}, private: true, maxAge: 5, headers: []string{"X-A", "X-B"}, maxHost: 7},
	/*7*/ {entries: []vEntry{{false, "http", "a.io"}}, fn: "always", maxHost: 4},
}

func (e vEntry) text() string {
	if e.wildcard {
		return e.scheme + "://*." + e.domain
	}
	return e.scheme + "://" + e.domain
}

var vLowerTab [256]byte

func init() {
	for i := 0; i < 256; i++ {
		c := byte(i)
		if c >= 'A' && c <= 'Z' {
			c += 32
		}
		vLowerTab[i] = c
	}
}

func vLower(s string) string {
	b := make([]byte, len(s))
	for i := 0; i < len(s); i++ {
		b[i] = vLowerTab[s[i]]
	}
	return string(b)
}

func vHasSuffix(s, suf string) bool {
	return len(s) >= len(suf) && s[len(s)-len(suf):] == suf
}

// VH_C19_cors: case = cfgIndex*4 + reqKind (0 simple GET, 1 preflight, 2 OPTIONS without ACRM, 3 "null"/no origin).
func VH_C19_cors(caseID int) {
	cc := &vC19Catalogue[caseID/4]
	kind := caseID % 4
	cfg := Config{AllowCredentials: cc.creds, AllowPrivateNetwork: cc.private, MaxAge: cc.maxAge, AllowHeaders: cc.headers}
	for _, e := range cc.entries {
		cfg.AllowOrigins = append(cfg.AllowOrigins, e.text())
	}
	if cc.all {
		cfg.AllowOrigins = []string{"*"}
	}
	switch cc.fn {
	case "":
	case "always":
		cfg.AllowOriginsFunc = func(string) bool { return true }
	default:
		want := cc.fn
		cfg.AllowOriginsFunc = func(o string) bool { return o == want }
	}
	vStub("html.EscapeString=identity")
	vStub("fasthttp.normalizePath=skip")
	app := fiber.New()
	app.Use(New(cfg))
	ran := false
	app.All("/", func(c fiber.Ctx) error {
		ran = true
		return c.SendStatus(fiber.StatusOK)
	})

	// ---- the request
	origin := ""
	scheme := ""
	hostport := ""
	present := true
	if kind == 3 {
		if vChoice("nullorigin", 2) == 0 {
			present = false
		} else {
			origin = "null"
		}
	} else {
		scheme = []string{"http", "https"}[vChoice("scheme", 2)]
		n := vLen("hostlen", 1, cc.maxHost)
		h := vString("host", n)
		for i := 0; i < len(h); i++ {
			c := h[i]
			isLower := vAnd(c >= 'a', c <= 'z')
			isDigit := vAnd(c >= '0', c <= '9')
			isUpper := vAnd(c >= 'A', c <= 'Z')
			ok := vOr(vOr(isLower, isDigit), vOr(c == '.', vOr(c == '-', c == ':')))
			if i == 0 {
				ok = vOr(ok, isUpper)
			}
			vAssume(ok)
		}
		hostport = h
		origin = scheme + "://" + h
	}
	fctx := &fasthttp.RequestCtx{}
	method := "GET"
	if kind == 1 || kind == 2 {
		method = "OPTIONS"
	}
	fctx.Request.Header.SetMethod(method)
	fctx.Request.SetRequestURI("/")
	if present {
		fctx.Request.Header.Set("Origin", origin)
	}
	if kind == 1 {
		fctx.Request.Header.Set("Access-Control-Request-Method", "PUT")
		if cc.private && vChoice("pna", 2) == 1 {
			fctx.Request.Header.Set("Access-Control-Request-Private-Network", "true")
		}
	}
	app.Handler()(fctx)

	acao := string(fctx.Response.Header.Peek("Access-Control-Allow-Origin"))
	acac := string(fctx.Response.Header.Peek("Access-Control-Allow-Credentials"))
	vary := string(fctx.Response.Header.Peek("Vary"))
	acam := string(fctx.Response.Header.Peek("Access-Control-Allow-Methods"))

	// ---- oracle: is the origin permitted?
	lo := vLower(origin)
	lhp := vLower(hostport)
	allowed := false
	if present && kind != 3 {
		for _, e := range cc.entries {
			if e.scheme != scheme {
				continue
			}
			if e.wildcard {
				// host = label(s) + "." + domain (an empty left label is not demanded either way,
				// so it is accepted here)
				allowed = vOr(allowed, vHasSuffix(lhp, "."+e.domain))
			} else {
				allowed = vOr(allowed, lhp == e.domain)
			}
		}
	}
	if cc.fn == "always" {
		allowed = true
	} else if cc.fn != "" {
		allowed = vOr(allowed, lo == cc.fn)
	}
	allowAll := cc.all

	vObserve("acao", acao)
	if acao != "" {
		vReach("acao-set")
		if acao == "*" {
			vAssert(allowAll, "star-only-when-all-allowed")
		} else {
			vAssert(allowed, "acao-only-for-allowed-origin")
			vAssert(acao == lo, "acao-equals-lowercased-origin")
		}
	} else {
		vReach("acao-absent")
	}
	vAssert(!(acac == "true" && acao == "*"), "no-credentials-with-star")
	if acac == "true" {
		vAssert(acao != "", "credentials-need-origin")
	}
	if present && !allowAll {
		vAssert(strings.Contains(vary, "Origin"), "vary-origin")
	}
	if kind == 1 && present && origin != "" {
		vReach("preflight")
		vAssert(fctx.Response.StatusCode() == fiber.StatusNoContent, "preflight-204")
		vAssert(!ran, "preflight-not-forwarded")
		vAssert(acam == strings.Join(ConfigDefault.AllowMethods, ", "), "preflight-methods")
		if len(cc.headers) > 0 {
			vAssert(string(fctx.Response.Header.Peek("Access-Control-Allow-Headers")) == strings.Join(cc.headers, ", "), "preflight-headers")
		}
	} else {
		vAssert(ran, "handler-runs")
	}
}
