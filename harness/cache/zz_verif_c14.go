package cache

// C14 — the cache is transparent, fresh, bounded and survives concurrency.

import (
	"strconv"
	"time"

	"github.com/gofiber/fiber/v3"
	"github.com/valyala/fasthttp"
)

// ---------------------------------------------------------------------------
// 1. indexedHeap: one operation from an arbitrary valid state (inductive step)

var vPerms3 = [][]int{{0, 1, 2}, {0, 2, 1}, {1, 0, 2}, {1, 2, 0}, {2, 0, 1}, {2, 1, 0}}

// vHeapInv is the representation invariant: heap order on exp, indices[] inverse of the live
// entries' idx, idx values of live and parked slots form a permutation of 0..maxidx-1.
func vHeapInv(h *indexedHeap) bool {
	n := len(h.entries)
	ok := true
	for i := 1; i < n; i++ {
		ok = vAnd(ok, h.entries[(i-1)/2].exp <= h.entries[i].exp)
	}
	if h.maxidx < n || len(h.indices) != h.maxidx || cap(h.entries) < h.maxidx {
		return false
	}
	seen := make([]bool, h.maxidx)
	all := h.entries[:h.maxidx]
	for i := 0; i < h.maxidx; i++ {
		id := all[i].idx
		if id < 0 || id >= h.maxidx || seen[id] {
			return false
		}
		seen[id] = true
		if i < n && h.indices[id] != i {
			return false
		}
	}
	return ok
}

// VH_C14_heap: case = n*4 + parked*2 + op   (n live entries 0..3, parked free slots 0..1, op 0 put / 1 remove)
func VH_C14_heap(caseID int) {
	n := caseID / 4
	parked := (caseID / 2) % 2
	op := caseID % 2
	total := n + parked
	if total > 3 {
		total = 3
		parked = 3 - n
	}
	h := &indexedHeap{}
	// arbitrary valid pre-state: idx assignment is any permutation, exps symbolic in heap order
	perm := []int{0, 1, 2}
	if total == 3 {
		perm = vPerms3[vChoice("perm", 6)]
	} else if total == 2 && vChoice("perm", 2) == 1 {
		perm = []int{1, 0}
	}
	all := make([]heapEntry, total, total+2)
	h.indices = make([]int, total, total+2)
	for i := 0; i < total; i++ {
		all[i] = heapEntry{key: "k" + strconv.Itoa(i), exp: vU64("exp" + strconv.Itoa(i)), bytes: uint(1 + i), idx: perm[i]}
		if i < n {
			h.indices[perm[i]] = i
		} else {
			h.indices[perm[i]] = int(vByte("stale"+strconv.Itoa(i))) % (total + 1)
		}
	}
	h.entries = all[:n]
	h.maxidx = total
	vAssume(vHeapInv(h))

	liveSum := uint(0)
	for i := 0; i < n; i++ {
		liveSum += h.entries[i].bytes
	}
	switch op {
	case 0:
		e := vU64("newexp")
		idx := h.put("new", e, 7)
		vAssert(vHeapInv(h), "invariant-after-put")
		vAssert(len(h.entries) == n+1, "one-more-entry")
		vAssert(idx >= 0 && idx < h.maxidx && h.entries[h.indices[idx]].key == "new", "returned-index-finds-entry")
		vReach("put")
	case 1:
		if n == 0 {
			vReach("remove")
			return
		}
		which := vChoice("which", n+1) // n = removeFirst
		var key string
		var size uint
		var wantKey string
		if which == n {
			wantKey = ""
			key, size = h.removeFirst()
			// the removed entry had the minimal expiration
			for i := 0; i < len(h.entries); i++ {
				_ = i
			}
		} else {
			id := h.entries[which].idx
			wantKey = h.entries[which].key
			key, size = h.remove(id)
		}
		vAssert(vHeapInv(h), "invariant-after-remove")
		vAssert(len(h.entries) == n-1, "one-less-entry")
		if wantKey != "" {
			vAssert(key == wantKey, "removed-the-requested-entry")
		}
		rest := uint(0)
		for i := 0; i < len(h.entries); i++ {
			rest += h.entries[i].bytes
			vAssert(h.entries[i].key != key, "removed-entry-gone")
		}
		vAssert(rest+size == liveSum, "bytes-accounting")
		vReach("remove")
	}
}

// ---------------------------------------------------------------------------
// 2. sequential histories through the real middleware

type vCacheStore struct {
	data map[string][]byte
	exp  map[string]int64
}

func (s *vCacheStore) Get(key string) ([]byte, error) {
	vYield("storage.Get")
	var val []byte
	if e, ok := s.exp[key]; !(ok && e != 0 && e <= vNow()) {
		val = s.data[key]
	}
	// the reply travels back: another request may run before the caller sees it
	vYield("storage.Get.reply")
	return val, nil
}
func (s *vCacheStore) Set(key string, val []byte, ttl time.Duration) error {
	vYield("storage.Set")
	s.data[key] = append([]byte(nil), val...)
	s.exp[key] = 0
	if ttl > 0 {
		s.exp[key] = vNow() + int64(ttl/time.Second)
	}
	return nil
}
func (s *vCacheStore) Delete(key string) error {
	vYield("storage.Delete")
	delete(s.data, key)
	delete(s.exp, key)
	return nil
}
func (s *vCacheStore) Reset() error { s.data, s.exp = map[string][]byte{}, map[string]int64{}; return nil }
func (s *vCacheStore) Close() error { return nil }

type vOrigin struct {
	status int
	body   string
	ctype  string
	hdr    string
	enc    string
}

type vStored struct {
	o   vOrigin
	exp int64
}

var vStatuses = []int{200, 204, 404, 500, 302}

// VH_C14_sequential: case = generators*16 + storage*8 + maxBytes*4 + headers*2 + invalidator
func VH_C14_sequential(caseID int) {
	gen := caseID/16 == 1 // custom ExpirationGenerator and KeyGenerator
	caseID %= 16
	stub := caseID/8 == 1
	maxBytes := uint(0)
	if (caseID/4)%2 == 1 {
		maxBytes = 3
	}
	storeHdrs := (caseID/2)%2 == 1
	withInval := caseID%2 == 1
	const expSec = 2
	var st *vCacheStore
	cfg := Config{Expiration: expSec * time.Second, MaxBytes: maxBytes, StoreResponseHeaders: storeHdrs}
	if stub {
		st = &vCacheStore{data: map[string][]byte{}, exp: map[string]int64{}}
		cfg.Storage = st
	}
	expFor := func(path string) int64 { return expSec }
	if gen {
		// per-response lifetime: 1 s for /a, 3 s for everything else; keys carry a prefix
		expFor = func(path string) int64 {
			if path == "/a" {
				return 1
			}
			return 3
		}
		cfg.ExpirationGenerator = func(c fiber.Ctx, _ *Config) time.Duration {
			return time.Duration(expFor(c.Path())) * time.Second
		}
		cfg.KeyGenerator = func(c fiber.Ctx) string { return "K" + c.Path() }
	}
	invalidate := false
	if withInval {
		cfg.CacheInvalidator = func(c fiber.Ctx) bool { return invalidate }
	}
	vStub("html.EscapeString=identity")
	vStub("fasthttp.normalizePath=skip")
	app := fiber.New()
	app.Use(New(cfg))
	var cur vOrigin
	originRuns := 0
	app.All("/:k", func(c fiber.Ctx) error {
		originRuns++
		c.Set("Content-Type", cur.ctype)
		c.Set("Content-Encoding", cur.enc)
		c.Set("X-Extra", cur.hdr)
		return c.Status(cur.status).SendString(cur.body)
	})

	model := map[string]*vStored{}
	now := int64(0)
	sharedCtx := &fasthttp.RequestCtx{}
	for r := 0; r < 3; r++ {
		rs := strconv.Itoa(r)
		// request-specific menus keep the product of choices small: request 0 seeds the cache,
		// request 1 varies everything, request 2 probes key a again
		gap := 0
		if r > 0 {
			gap = 1 + vChoice("gap"+rs, 2) // 1 s (fresh) or 2 s (= Expiration) later
			if r == 1 && vChoice("gap0", 2) == 1 {
				gap = 0 // right away: an entry stored by request 0 is still live at request 2
			}
			vAdvanceReal(gap)
			now += int64(gap)
		}
		path, method, directive := "/a", "GET", ""
		statuses := []int{200, 500}
		blens := []int{1}
		switch r {
		case 0:
			directive = []string{"", "no-store"}[vChoice("cc"+rs, 2)]
		case 1:
			path = "/" + []string{"a", "b"}[vChoice("key"+rs, 2)]
			method = []string{"GET", "POST"}[vChoice("method"+rs, 2)]
			directive = []string{"", "no-cache", "no-store", "max-age=0, no-cache", "private, no-store"}[vChoice("cc"+rs, 5)]
			statuses = []int{200, 404, 302}
			blens = []int{1, 3}
		case 2:
			directive = []string{"", "no-cache"}[vChoice("cc"+rs, 2)]
			statuses = []int{204}
		}
		invalidate = withInval && r > 0 && vChoice("inval"+rs, 2) == 1
		cur = vOrigin{status: statuses[vChoice("status"+rs, len(statuses))], ctype: "text/x" + rs, hdr: "h" + rs, enc: "enc" + rs}
		cur.body = "B" + vString("body"+rs, blens[vChoice("blen"+rs, len(blens))])
		for i := 1; i < len(cur.body); i++ {
			vAssume(cur.body[i] > 0x20)
			vAssume(cur.body[i] < 0x7f)
		}
		// all requests arrive on one connection: its request and response objects are recycled
		fctx := sharedCtx
		fctx.Request.Reset()
		fctx.Response.Reset()
		fctx.Request.Header.SetMethod(method)
		fctx.Request.SetRequestURI(path)
		if directive != "" {
			fctx.Request.Header.Set("Cache-Control", directive)
		}
		before := originRuns
		app.Handler()(fctx)
		hit := originRuns == before
		key := path + "_" + method

		if hit {
			vReach("hit")
			m := model[key]
			// never a hit without a live entry, after expiry / invalidation, for no-cache / no-store / POST
			vAssert(m != nil, "hit-has-stored-entry")
			vAssert(method == "GET", "hit-only-for-configured-method")
			vAssert(directive == "", "no-hit-for-no-cache-or-no-store")
			vAssert(!invalidate, "no-hit-after-invalidation")
			if m != nil {
				vAssert(now < m.exp, "no-hit-after-expiry")
				vAssert(fctx.Response.StatusCode() == m.o.status, "hit-status")
				vAssert(string(fctx.Response.Body()) == m.o.body, "hit-body")
				vAssert(string(fctx.Response.Header.ContentType()) == m.o.ctype, "hit-content-type")
				vAssert(string(fctx.Response.Header.ContentEncoding()) == m.o.enc, "hit-content-encoding")
				if storeHdrs {
					vAssert(string(fctx.Response.Header.Peek("X-Extra")) == m.o.hdr, "hit-stored-header")
				}
			}
		} else {
			vReach("miss")
			// the origin answered: what the client gets is the origin's response
			vAssert(fctx.Response.StatusCode() == cur.status, "miss-status")
			vAssert(string(fctx.Response.Body()) == cur.body, "miss-body")
			// update the model: stored iff GET, not no-store, cacheable status, fits MaxBytes
			noStore := directive == "no-store" || directive == "private, no-store"
			// a no-store request bypasses the cache entirely: nothing is looked up, invalidated or stored
			if m := model[key]; m != nil && !noStore && (now >= m.exp || invalidate) {
				delete(model, key)
			}
			cacheable := cur.status == 200 || cur.status == 204 || cur.status == 404
			if method == "GET" && !noStore && cacheable && (maxBytes == 0 || uint(len(cur.body)) <= maxBytes) {
				model[key] = &vStored{o: cur, exp: now + expFor(path)}
			}
		}
		// MaxBytes: the bytes actually held (memory store / stub contents) never exceed the bound
		if maxBytes > 0 && stub {
			total := 0
			for k, v := range st.data {
				if len(k) > 5 && k[len(k)-5:] == "_body" {
					if e := st.exp[k]; e == 0 || e > vNow() {
						total += len(v)
					}
				}
			}
			vAssert(uint(total) <= maxBytes, "stored-bytes-within-maxbytes")
		}
	}
}

// ---------------------------------------------------------------------------
// 3. concurrency: two requests, same or different keys, with an expired entry and eviction

// VH_C14_concurrent: case = inval*8 + storage*4 + sameKey*2 + maxBytes
// (inval: a CacheInvalidator that fires for the two concurrent requests while the entry is live)
func VH_C14_concurrent(caseID int) {
	inval := caseID/8 == 1
	caseID %= 8
	stub := caseID/4 == 1
	sameKey := (caseID/2)%2 == 1
	maxBytes := uint(0)
	if caseID%2 == 1 {
		maxBytes = 4
	}
	cfg := Config{Expiration: 2 * time.Second, MaxBytes: maxBytes}
	if stub {
		cfg.Storage = &vCacheStore{data: map[string][]byte{}, exp: map[string]int64{}}
	}
	fire := false
	if inval {
		cfg.CacheInvalidator = func(c fiber.Ctx) bool { return fire }
	}
	vStub("html.EscapeString=identity")
	vStub("fasthttp.normalizePath=skip")
	app := fiber.New()
	app.Use(New(cfg))
	app.Get("/:k", func(c fiber.Ctx) error {
		vYield("origin")
		return c.SendString("xy")
	})
	do := func(path string) int {
		fctx := &fasthttp.RequestCtx{}
		fctx.Request.Header.SetMethod("GET")
		fctx.Request.SetRequestURI(path)
		app.Handler()(fctx)
		return fctx.Response.StatusCode()
	}
	// warm the cache, then let the entry expire
	do("/a")
	if inval {
		do("/b")
		fire = true
	} else {
		vAdvanceReal(3)
	}
	paths := []string{"/a", "/b"}
	if sameKey {
		paths = []string{"/a", "/a"}
	}
	status := make([]int, 2)
	vSched(true)
	for k := 0; k < 2; k++ {
		k := k
		vSpawn(func() { status[k] = do(paths[k]) })
	}
	vJoin()
	vSched(false)
	// no panic (an uncaught panic in a thread is reported by the engine), no deadlock, both answered
	vAssert(status[0] == 200 && status[1] == 200, "both-answered")
	// a further request still works (the accounting is not corrupt)
	vAssert(do("/c") == 200, "third-request-answered")
	if st, ok := cfg.Storage.(*vCacheStore); ok && maxBytes > 0 {
		total := 0
		for k, v := range st.data {
			if len(k) > 5 && k[len(k)-5:] == "_body" {
				if e := st.exp[k]; e == 0 || e > vNow() {
					total += len(v)
				}
			}
		}
		vAssert(uint(total) <= maxBytes, "stored-bytes-within-maxbytes")
	}
	vReach("joined")
}
