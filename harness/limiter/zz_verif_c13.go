package limiter

// C13 — the rate limiter never admits more than its algorithm allows, and rejects nothing
// while the budget is not exhausted.

import (
	"strconv"
	"time"

	"github.com/gofiber/fiber/v3"
	"github.com/valyala/fasthttp"
)

type vWin struct {
	end  int64 // 0 = no window yet
	curr int
	prev int
}

// vStubStorage is an external fiber.Storage with TTLs on the virtual clock.
type vStubStorage struct {
	data map[string][]byte
	exp  map[string]int64
}

func (s *vStubStorage) Get(key string) ([]byte, error) {
	vYield("storage.Get")
	if e, ok := s.exp[key]; ok && e != 0 && e <= vNow() {
		return nil, nil
	}
	return s.data[key], nil
}

func (s *vStubStorage) Set(key string, val []byte, ttl time.Duration) error {
	vYield("storage.Set")
	s.data[key] = append([]byte(nil), val...)
	if ttl > 0 {
		s.exp[key] = vNow() + int64(ttl/time.Second)
	} else {
		s.exp[key] = 0
	}
	return nil
}
func (s *vStubStorage) Delete(key string) error { delete(s.data, key); delete(s.exp, key); return nil }
func (s *vStubStorage) Reset() error {
	s.data = map[string][]byte{}
	s.exp = map[string]int64{}
	return nil
}
func (s *vStubStorage) Close() error { return nil }

type vReqPlan struct {
	key    int
	limit  int
	status int
}

// VH_C13_sequential: case = algo*16 + storage*8 + skip*2 + expIdx
// algo 0 fixed / 1 sliding; storage 0 memory / 1 stub; skip 0 none,1 skipFailed,2 skipSuccessful; exp in {2,3} seconds.
func VH_C13_sequential(caseID int) {
	sliding := caseID/16 == 1
	stub := (caseID/8)%2 == 1
	skip := (caseID / 2) % 4
	expSec := int64(2 + caseID%2)
	k := 3

	cfg := Config{Max: 2, Expiration: time.Duration(expSec) * time.Second}
	if sliding {
		cfg.LimiterMiddleware = SlidingWindow{}
	}
	if stub {
		cfg.Storage = &vStubStorage{data: map[string][]byte{}, exp: map[string]int64{}}
	}
	cfg.SkipFailedRequests = skip == 1
	cfg.SkipSuccessfulRequests = skip == 2
	cur := &vReqPlan{}
	cfg.MaxFunc = func(c fiber.Ctx) int { return cur.limit }
	cfg.KeyGenerator = func(c fiber.Ctx) string { return "k" + strconv.Itoa(cur.key) }
	vStub("html.EscapeString=identity")
	vStub("fasthttp.normalizePath=skip")
	app := fiber.New()
	reached := 0
	app.Use(New(cfg))
	app.Get("/", func(c fiber.Ctx) error {
		reached++
		return c.SendStatus(cur.status)
	})

	var model [2]vWin
	now := int64(0)
	for r := 0; r < k; r++ {
		if r > 0 {
			gap := vConcretize(vInt("gap"+strconv.Itoa(r), 0, int(expSec)+1))
			vAdvance(gap)
			now += int64(gap)
		}
		cur.key = vChoice("key"+strconv.Itoa(r), 2)
		cur.limit = vInt("limit"+strconv.Itoa(r), 1, 3)
		cur.status = 200
		if skip != 0 && vBool("fail"+strconv.Itoa(r)) {
			cur.status = 500
		}
		before := reached
		fctx := &fasthttp.RequestCtx{}
		fctx.Request.Header.SetMethod("GET")
		fctx.Request.SetRequestURI("/")
		app.Handler()(fctx)
		admitted := reached > before

		// reference model of the documented algorithm
		w := &model[cur.key]
		if w.end == 0 {
			w.end = now + expSec
		} else if now >= w.end {
			if sliding {
				w.prev = w.curr
				elapsed := now - w.end
				if elapsed >= expSec {
					// a whole window without requests lies in between: nothing of it overlaps
					w.end = now + expSec
					w.prev = 0
				} else {
					w.end = now + expSec - elapsed
				}
			} else {
				w.end = now + expSec
			}
			w.curr = 0
		}
		w.curr++
		resetIn := w.end - now
		rate := w.curr
		if sliding {
			rate = int(float64(w.prev)*(float64(resetIn)/float64(expSec))) + w.curr
		}
		wantAdmit := rate <= cur.limit
		vObserve("req", strconv.Itoa(r))
		vAssert(admitted == wantAdmit, "admission")
		if !admitted {
			vReach("rejected")
			vAssert(fctx.Response.StatusCode() == fiber.StatusTooManyRequests, "429")
			vAssert(string(fctx.Response.Header.Peek("Retry-After")) == strconv.FormatInt(resetIn, 10), "retry-after")
		} else {
			vReach("admitted")
			if (cfg.SkipSuccessfulRequests && cur.status < 400) || (cfg.SkipFailedRequests && cur.status >= 400) {
				w.curr--
			}
		}
	}
}

// VH_C13_concurrent: n concurrent requests on one key, every interleaving at lock / storage /
// handler boundaries. case = algo*8 + storage*4 + (n-2)*2 + skipFailed.
func VH_C13_concurrent(caseID int) {
	sliding := caseID/8 == 1
	stub := (caseID/4)%2 == 1
	n := 2 + (caseID/2)%2
	skipFailed := caseID%2 == 1
	cfg := Config{Max: 1, Expiration: 2 * time.Second, SkipFailedRequests: skipFailed}
	if sliding {
		cfg.LimiterMiddleware = SlidingWindow{}
	}
	if stub {
		cfg.Storage = &vStubStorage{data: map[string][]byte{}, exp: map[string]int64{}}
	}
	limit := vConcretize(vInt("limit", 1, 2))
	cfg.MaxFunc = func(c fiber.Ctx) int { return limit }
	cfg.KeyGenerator = func(c fiber.Ctx) string { return "k" }
	vStub("html.EscapeString=identity")
	vStub("fasthttp.normalizePath=skip")
	app := fiber.New()
	reached := 0
	failing := make([]bool, n)
	app.Use(New(cfg))
	app.Get("/:i", func(c fiber.Ctx) error {
		reached++
		vYield("handler")
		if failing[int(c.Params("i")[0]-'0')] {
			return c.SendStatus(500)
		}
		return c.SendStatus(200)
	})
	statuses := make([]int, n)
	for k := 0; k < n; k++ {
		if skipFailed {
			failing[k] = vChoice("fail"+strconv.Itoa(k), 2) == 1
		}
	}
	vSched(true)
	if n > 2 && stub {
		// three threads with storage yields: at most two preemptions (every other switch happens
		// where the running thread blocks or ends)
		vPreemptBound(2)
	}
	for k := 0; k < n; k++ {
		k := k
		vSpawn(func() {
			fctx := &fasthttp.RequestCtx{}
			fctx.Request.Header.SetMethod("GET")
			fctx.Request.SetRequestURI("/" + strconv.Itoa(k))
			app.Handler()(fctx)
			statuses[k] = fctx.Response.StatusCode()
		})
	}
	vJoin()
	vSched(false)
	// counted hits = admitted requests that were not skipped afterwards
	counted := 0
	admitted := 0
	for k := 0; k < n; k++ {
		if statuses[k] != fiber.StatusTooManyRequests {
			admitted++
			if !(skipFailed && failing[k]) {
				counted++
			}
		}
	}
	vAssert(admitted == reached, "status-vs-handler")
	vAssert(counted <= limit, "never-more-than-limit")
	// the accounting the interleaving left behind: two more requests in the same window, one
	// after the other, must not be admitted beyond the limit either
	for p := 0; p < 2; p++ {
		fctx := &fasthttp.RequestCtx{}
		fctx.Request.Header.SetMethod("GET")
		fctx.Request.SetRequestURI("/0")
		failing[0] = false
		app.Handler()(fctx)
		if fctx.Response.StatusCode() != fiber.StatusTooManyRequests {
			counted++
		}
	}
	vAssert(counted <= limit, "never-more-than-limit-after-the-race")
	if !skipFailed {
		want := n
		if limit < n {
			want = limit
		}
		vAssert(admitted == want, "budget-fully-usable")
	}
	vReach("joined")
}
