package client

// C18 — the cookie jar never leaks across host, path, expiry (slice 1); request assembly is a
// deterministic function of the configuration (slice 2).

import (
	"bufio"
	"context"
	"errors"
	"net"
	"strconv"
	"time"

	"github.com/valyala/fasthttp"
)

type vJarKey struct {
	host, key, path string
}

type vJarVal struct {
	value   string
	expired bool
	seq     int
}

var vHosts = []string{"h1.io", "h2.io"}
var vPaths = []string{"/", "/a", "/a/b", "/ab"}
var vKeys = []string{"k1", "k2"}

// vSharedURI: when set, every jar operation goes through this one URI object, the way a reused
// request hands its (overwritten) host and path buffers to the jar.
var vSharedURI *fasthttp.URI

func vURI(host, path string) *fasthttp.URI {
	u := vSharedURI
	if u == nil {
		u = fasthttp.AcquireURI()
	}
	_ = u.Parse(nil, []byte("http://"+host+path))
	return u
}

func vPast() time.Time   { return time.Date(2001, 1, 1, 0, 0, 0, 0, time.UTC) }
func vFuture() time.Time { return time.Date(2101, 1, 1, 0, 0, 0, 0, time.UTC) }

// VH_C18_jar: a history of k operations with a Get for every (host, path) after each operation
// (case = k) or only after the last one (case = 10+k: expired cookies pile up before the first lookup);
// +20: all operations share one URI object (its host/path buffers are overwritten by every operation).
// 40+k: every operation is a response whose Set-Cookie either has no Path attribute or names "/"
// (the same cookie: one without a path counts as stored for "/"), answering a request to an
// independently chosen path ("/" or "/a") - a pathless Set-Cookie served from a sub-path must still
// update or expire the cookie stored for "/".
func VH_C18_jar(caseID int) {
	k := caseID % 10
	onlyAtEnd := (caseID/10)%2 == 1
	pathless := caseID >= 40
	vSharedURI = nil
	if (caseID/10)%4 >= 2 {
		vSharedURI = fasthttp.AcquireURI()
	}
	jar := &CookieJar{}
	model := map[vJarKey]*vJarVal{}
	seq := 0
	check := func(tag string) {
		for _, h := range vHosts {
			for _, rp := range []string{"/", "/a", "/a/b", "/ab/c"} {
				got := jar.Get(vURI(h, rp))
				// expected: unexpired cookies of host h whose path is a prefix of rp, each once
				want := map[string]string{} // key|path -> value
				for mk, mv := range model {
					if mk.host != h || mv.expired {
						continue
					}
					if len(mk.path) <= len(rp) && rp[:len(mk.path)] == mk.path {
						want[mk.key+"|"+mk.path] = mv.value
					}
				}
				// known finding K1: the jar matches paths the wrong way round (cookie path must start
				// with the request path; "/" matches everything) — pinned by the repo's own tests.
				// It can only matter when the host holds a cookie whose path is neither "/" nor rp.
				dirMatters := false
				for mk, mv := range model {
					if mk.host == h && !mv.expired && mk.path != "/" && mk.path != rp {
						dirMatters = true
					}
				}
				vKnown("C18-K1-path-direction", dirMatters)
				seen := map[string]int{}
				desc := h + rp + " ->"
				for _, c := range got {
					desc += " " + string(c.Key()) + "|" + string(c.Path())
				}
				vObserve("get", desc)
				for _, c := range got {
					cp := string(c.Path())
					if cp == "" {
						cp = "/"
					}
					id := string(c.Key()) + "|" + cp
					seen[id]++
					wv, ok := want[id]
					vAssert(ok, "no-foreign-or-expired-or-wrong-path-cookie")
					if ok {
						vAssert(string(c.Value()) == wv, "cookie-value")
					}
				}
				for id := range want {
					vAssert(seen[id] == 1, "each-matching-cookie-exactly-once")
				}
			}
		}
	}
	for step := 0; step < k; step++ {
		ss := strconv.Itoa(step)
		h := vHosts[vChoice("host"+ss, 2)]
		key := vKeys[vChoice("key"+ss, 2)]
		p := "/"
		if !pathless {
			p = vPaths[vChoice("path"+ss, len(vPaths))]
		}
		val := "v" + vToken1("val"+ss)
		exp := vChoice("exp"+ss, 3) // 0 unlimited, 1 past, 2 future
		seq++
		if pathless {
			noPath := vChoice("nopath"+ss, 2) == 1
			rq := []string{"/", "/a"}[vChoice("rq"+ss, 2)]
			resp := fasthttp.AcquireResponse()
			c := fasthttp.AcquireCookie()
			c.SetKey(key)
			c.SetValue(val)
			if !noPath {
				c.SetPath("/")
			}
			switch exp {
			case 1:
				c.SetExpire(vPast())
			case 2:
				c.SetExpire(vFuture())
			}
			resp.Header.SetCookie(c)
			ru := vURI(h, rq)
			jar.parseCookiesFromResp(ru.Host(), ru.Path(), resp)
			fasthttp.ReleaseCookie(c)
			fasthttp.ReleaseResponse(resp)
			p = "/"
		} else if vChoice("op"+ss, 2) == 0 {
			// jar.Set
			c := fasthttp.AcquireCookie()
			c.SetKey(key)
			c.SetValue(val)
			c.SetPath(p)
			switch exp {
			case 1:
				c.SetExpire(vPast())
			case 2:
				c.SetExpire(vFuture())
			}
			jar.Set(vURI(h, "/"), c)
			fasthttp.ReleaseCookie(c)
		} else {
			// a response from host h for a request to path p sets the cookie
			resp := fasthttp.AcquireResponse()
			c := fasthttp.AcquireCookie()
			c.SetKey(key)
			c.SetValue(val)
			c.SetPath(p)
			switch exp {
			case 1:
				c.SetExpire(vPast())
			case 2:
				c.SetExpire(vFuture())
			}
			resp.Header.SetCookie(c)
			ru := vURI(h, p)
			jar.parseCookiesFromResp(ru.Host(), ru.Path(), resp)
			fasthttp.ReleaseCookie(c)
			fasthttp.ReleaseResponse(resp)
		}
		model[vJarKey{h, key, p}] = &vJarVal{value: val, expired: exp == 1, seq: seq}
		if !onlyAtEnd || step == k-1 {
			check("after-step")
		}
	}
	vReach("checked")
}

func vToken1(name string) string {
	b := vByte(name)
	vAssume(vOr(vAnd(b >= 'a', b <= 'z'), vAnd(b >= '0', b <= '9')))
	return string([]byte{b})
}

// ---------------------------------------------------------------------------
// slice 2: request assembly is a deterministic function of the configuration

// VH_C18_assembly: case 0: overlapping path-parameter names, every map order;
// case 1: precedence of request-level over client-level values; additive headers/query;
// case 2: effective timeout for every pair of client-level and request-level timeouts.
func VH_C18_assembly(caseID int) {
	c := New()
	c.SetBaseURL("http://h.io")
	req := AcquireRequest().SetClient(c)
	switch caseID {
	case 0:
		a := vToken1("a")
		b := vToken1("b")
		req.SetURL("/u/:id/v/:idx")
		req.SetPathParams(map[string]string{"id": a, "idx": b + "x"})
		vPermuteMaps(true)
		err := parserRequestURL(c, req)
		vPermuteMaps(false)
		vAssert(err == nil, "url-assembled")
		got := string(req.RawRequest.URI().Path())
		vObserve("path", got)
		vAssert(got == "/u/"+a+"/v/"+b+"x", "path-params-substituted-independently-of-map-order")
		vReach("assembled")
	case 1:
		cv := vToken1("cv")
		rv := vToken1("rv")
		c.SetPathParam("id", "c"+cv)
		c.AddParam("q", "c"+cv)
		c.SetUserAgent("ua-c" + cv)
		c.SetReferer("ref-c" + cv)
		c.SetCookie("ck", "c"+cv)
		c.AddHeader("X-H", "c"+cv)
		req.SetURL("/u/:id")
		req.SetPathParam("id", "r"+rv)
		req.AddParam("q", "r"+rv)
		req.SetUserAgent("ua-r" + rv)
		req.SetReferer("ref-r" + rv)
		req.SetCookie("ck", "r"+rv)
		req.AddHeader("X-H", "r"+rv)
		vAssert(parserRequestURL(c, req) == nil, "url-assembled")
		vAssert(parserRequestHeader(c, req) == nil, "header-assembled")
		raw := req.RawRequest
		vAssert(string(raw.URI().Path()) == "/u/r"+rv, "request-level-path-param-wins")
		qs := raw.URI().QueryArgs().PeekMulti("q")
		vAssert(len(qs) == 2, "query-params-additive")
		if len(qs) == 2 {
			vAssert(string(qs[0]) == "c"+cv && string(qs[1]) == "r"+rv, "query-values-exact")
		}
		vAssert(string(raw.Header.UserAgent()) == "ua-r"+rv, "request-level-user-agent-wins")
		vAssert(string(raw.Header.Referer()) == "ref-r"+rv, "request-level-referer-wins")
		vAssert(string(raw.Header.Cookie("ck")) == "r"+rv, "request-level-cookie-wins")
		hs := raw.Header.PeekAll("X-H")
		vAssert(len(hs) == 2, "headers-additive")
		vReach("assembled")
	case 2:
		// the request-level timeout takes precedence over the client-level one
		tc := vInt("tclient", 0, 3)
		tr := vInt("trequest", 0, 3)
		c.SetTimeout(time.Duration(tc) * time.Second)
		req.SetTimeout(time.Duration(tr) * time.Second)
		co := &core{client: c, req: req, ctx: context.Background()}
		start := time.Now()
		cancel := co.timeout()
		d, has := co.ctx.Deadline()
		want := tr
		if tr == 0 {
			want = tc
		}
		if want == 0 {
			vAssert(!has, "no-timeout-no-deadline")
		} else {
			vAssert(has, "deadline-set")
			if has {
				secs := d.Sub(start) / time.Second
				vAssert(secs == time.Duration(want), "request-level-timeout-wins")
			}
		}
		if cancel != nil {
			cancel()
		}
		vReach("assembled")
	}
}

// ---------------------------------------------------------------------------
// slice 3: completion hand-off between the transport goroutine and a caller that may time out
//
// The network is a gate per request that a harness thread opens at some scheduling point; the
// transport (engine: stub of fasthttp.Client.Do calling vTransport; natively: a custom Dial with an
// in-memory echo server) waits for its gate. All scheduling decisions are therefore taken at
// harness-visible yield points of harness threads and replay natively.

var (
	vFailDo  bool
	vGate    [4]bool
	vDialSeq int
)

func vTransport(req *fasthttp.Request, resp *fasthttp.Response) error {
	n := 0
	if string(req.URI().Path()) == "/B" {
		n = 1
	}
	vWaitUntil(func() bool { return vGate[n] })
	if vFailDo && n == 0 {
		return errors.New("transport: host unreachable")
	}
	resp.SetStatusCode(200)
	resp.SetBodyString("echo:" + string(req.URI().Path()))
	return nil
}

func vNativeDial(addr string) (net.Conn, error) {
	n := 0
	if len(addr) > 0 && addr[0] == 'b' {
		n = 1
	}
	vWaitUntil(func() bool { return vGate[n] })
	if vFailDo && n == 0 {
		return nil, errors.New("transport: host unreachable")
	}
	cli, srv := net.Pipe()
	go func() {
		defer srv.Close()
		var rq fasthttp.Request
		if err := rq.Read(bufio.NewReader(srv)); err != nil {
			return
		}
		var rs fasthttp.Response
		rs.SetBodyString("echo:" + string(rq.URI().Path()))
		rs.SetConnectionClose()
		bw := bufio.NewWriter(srv)
		_ = rs.Write(bw)
		_ = bw.Flush()
	}()
	return cli, nil
}

// VH_C18_handoff: request A may be cancelled at any point while its transport call is in flight;
// the reply (case 0) or transport error (case 1) arrives at any other point; request B runs on the
// same client once A has returned (it may receive the pooled response / error channel A used).
func VH_C18_handoff(caseID int) {
	vStub("fasthttp.Client.Do=echo")
	vFailDo = caseID == 1
	vGate = [4]bool{}
	vDialSeq = 0
	c := New()
	if !vSymbolic() {
		c.fasthttp.Dial = vNativeDial
	}
	mk := func(path string) *Request {
		r := AcquireRequest().SetClient(c)
		r.RawRequest.SetRequestURI("http://" + string(path[1]+32) + ".io" + path)
		r.RawRequest.Header.SetMethod("GET")
		return r
	}
	ctxA, cancelA := context.WithCancel(context.Background())
	coreA := &core{client: c, req: mk("/A"), ctx: ctxA}
	coreB := &core{client: c, req: mk("/B"), ctx: context.Background()}
	var respA, respB *Response
	var errA, errB error
	aDone := false
	vSched(true)
	vPreemptBound(3)
	vSpawn(func() {
		respA, errA = coreA.execFunc()
		aDone = true
	})
	vSpawn(func() {
		vYield("cancel")
		cancelA()
	})
	vSpawn(func() {
		vYield("net-A")
		vGate[0] = true
	})
	vSpawn(func() {
		vWaitUntil(func() bool { return aDone })
		vYield("start-B")
		vGate[1] = true
		respB, errB = coreB.execFunc()
	})
	vJoin()
	vSched(false)
	if errA == nil {
		vReach("A-answered")
		vAssert(string(respA.RawResponse.Body()) == "echo:/A", "A-gets-its-own-response")
	} else {
		vReach("A-failed")
	}
	vAssert(errB == nil, "B-not-failed-by-A")
	if errB == nil {
		vAssert(string(respB.RawResponse.Body()) == "echo:/B", "B-gets-its-own-response")
	}
	vReach("B-done")
}
