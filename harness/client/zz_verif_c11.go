package client

// C11 — binding returns what the client encoded. Reflection (the client's struct walker
// SetValWithStruct and the server's schema decoder) is outside the engine, so the law is checked
// one layer below the struct: the multi-map of strings the client is given (what its struct walker
// produces) must equal the multi-map the server binder hands to the decoder, for every value.
// The server binds into map targets (map[string][]string / map[string]string), a supported target
// for which binder.parse copies the data verbatim and equalFieldType answers true for every key.

import (
	"bufio"
	"bytes"
	"errors"

	"github.com/gofiber/fiber/v3"
	"github.com/valyala/fasthttp"
)

// vC11Val: a symbolic value for the given source.
func vC11Val(name string, source, maxLen int, split bool) string {
	s := vString(name, vLen(name+"len", 0, maxLen))
	for i := 0; i < len(s); i++ {
		c := s[i]
		if split {
			vAssume(c != ',')
		}
		switch source {
		case 2: // header field value: visible bytes; inner blanks only
			vAssume(c >= 0x20)
			vAssume(c != 0x7f)
			if i == 0 || i == len(s)-1 {
				vAssume(c != ' ')
			}
		case 3: // cookie-octet (RFC 6265)
			vAssume(vAnd(c > 0x20, c < 0x7f))
			vAssume(vAnd(vAnd(c != '"', c != ','), vAnd(c != ';', c != '\\')))
		}
	}
	return s
}

// vC11Wire sends the assembled request over the wire format: serialise with fasthttp's writer,
// parse with fasthttp's reader into a fresh server-side request.
func vC11Wire(raw *fasthttp.Request, fctx *fasthttp.RequestCtx) bool {
	var buf bytes.Buffer
	bw := bufio.NewWriter(&buf)
	if err := raw.Write(bw); err != nil {
		return false
	}
	_ = bw.Flush()
	return fctx.Request.Read(bufio.NewReader(bytes.NewReader(buf.Bytes()))) == nil
}

// VH_C11_roundtrip: case = target*16 + split*8 + source
// source 0 query, 1 urlencoded form, 2 header, 3 cookie; target 0 map[string][]string, 1 map[string]string.
func VH_C11_roundtrip(caseID int) {
	source := caseID % 8
	split := (caseID/8)%2 == 1
	single := caseID/16 == 1
	vStub("html.EscapeString=identity")
	vStub("fasthttp.normalizePath=skip")

	v1 := vC11Val("v1", source, 2, split)
	v2 := vC11Val("v2", source, 1, split)
	v3 := vC11Val("v3", source, 1, split)

	c := New()
	c.SetBaseURL("http://h.io")
	req := AcquireRequest().SetClient(c)
	req.SetURL("/bind")
	ka, kb := "ka", "kb"
	switch source {
	case 0:
		req.AddParam(ka, v1).AddParam(ka, v2).AddParam(kb, v3)
	case 1:
		req.SetMethod("POST")
		req.AddFormData(ka, v1).AddFormData(ka, v2).AddFormData(kb, v3)
	case 2:
		ka, kb = "Ka", "Kb" // header names arrive in canonical form
		req.AddHeader("ka", v1).AddHeader("ka", v2).AddHeader("kb", v3)
	case 3:
		req.SetCookie(ka, v1).SetCookie(kb, v3)
	}
	vAssert(parserRequestURL(c, req) == nil, "url-assembled")
	vAssert(parserRequestHeader(c, req) == nil, "header-assembled")
	vAssert(parserRequestBody(c, req) == nil, "body-assembled")

	fctx := &fasthttp.RequestCtx{}
	if !vC11Wire(req.RawRequest, fctx) {
		vAssert(false, "wire-parse")
		return
	}

	app := fiber.New(fiber.Config{EnableSplittingOnParsers: split})
	multi := map[string][]string{}
	one := map[string]string{}
	var berr error
	ran := false
	app.All("/bind", func(ctx fiber.Ctx) error {
		ran = true
		var out any = &multi
		if single {
			out = &one
		}
		b := ctx.Bind().WithoutAutoHandling()
		switch source {
		case 0:
			berr = b.Query(out)
		case 1:
			berr = b.Body(out)
		case 2:
			berr = b.Header(out)
		case 3:
			berr = b.Cookie(out)
		}
		return nil
	})
	app.Handler()(fctx)
	vAssert(ran, "handler-ran")
	vAssert(berr == nil, "bind-succeeds")
	if berr != nil {
		return
	}
	vReach("bound")
	if single {
		last := v2
		if source == 3 {
			last = v1
		}
		vAssert(one[ka] == last, "single-last-value")
		vAssert(one[kb] == v3, "single-other-key")
		return
	}
	got := multi[ka]
	if source == 3 {
		vAssert(len(got) == 1, "cookie-count")
		if len(got) == 1 {
			vAssert(got[0] == v1, "cookie-value")
		}
	} else {
		vAssert(len(got) == 2, "slice-length")
		if len(got) == 2 {
			vAssert(got[0] == v1, "slice-elem-0")
			vAssert(got[1] == v2, "slice-elem-1")
		}
	}
	gb := multi[kb]
	vAssert(len(gb) == 1, "scalar-count")
	if len(gb) == 1 {
		vAssert(gb[0] == v3, "scalar-value")
	}
}

var errVDecode = errors.New("decode: malformed")

// VH_C11_select: the body the client marshalled reaches the decoder of the same format, intact.
// case: 0 json, 1 xml, 2 cbor.
func VH_C11_select(caseID int) {
	vStub("html.EscapeString=identity")
	vStub("fasthttp.normalizePath=skip")
	payload := vBytes("payload", vLen("plen", 0, 3))
	marshal := func(any) ([]byte, error) { return payload, nil }
	c := New()
	c.SetBaseURL("http://h.io")
	c.SetJSONMarshal(marshal).SetXMLMarshal(marshal).SetCBORMarshal(marshal)
	req := AcquireRequest().SetClient(c)
	req.SetURL("/bind").SetMethod("POST")
	switch caseID {
	case 0:
		req.SetJSON(1)
	case 1:
		req.SetXML(1)
	case 2:
		req.SetCBOR(1)
	}
	vAssert(parserRequestURL(c, req) == nil, "url-assembled")
	vAssert(parserRequestHeader(c, req) == nil, "header-assembled")
	vAssert(parserRequestBody(c, req) == nil, "body-assembled")
	fctx := &fasthttp.RequestCtx{}
	if !vC11Wire(req.RawRequest, fctx) {
		vAssert(false, "wire-parse")
		return
	}
	which := -1
	var seen []byte
	dec := func(k int) func([]byte, any) error {
		return func(b []byte, _ any) error {
			which = k
			seen = append([]byte(nil), b...)
			return nil
		}
	}
	app := fiber.New(fiber.Config{JSONDecoder: dec(0), XMLDecoder: dec(1), CBORDecoder: dec(2)})
	var berr error
	app.Post("/bind", func(ctx fiber.Ctx) error {
		var out int
		berr = ctx.Bind().Body(&out)
		return nil
	})
	app.Handler()(fctx)
	vAssert(berr == nil, "bind-succeeds")
	vAssert(which == caseID, "decoder-of-the-same-format")
	vAssert(string(seen) == string(payload), "payload-intact")
	vReach("decoded")
}

// VH_C11_total: arbitrary untrusted input never panics; failure is an error, and a 400 under
// automatic handling. case = auto*8 + kind; kind 0 query string, 1 form body, 2 cookie header,
// 3 content type, 7-bit (custom decoders that reject), 4 header value.
func VH_C11_total(caseID int) {
	kind := caseID % 8
	auto := caseID/8 == 1
	vStub("html.EscapeString=identity")
	vStub("fasthttp.normalizePath=skip")
	fctx := &fasthttp.RequestCtx{}
	fctx.Request.Header.SetMethod("POST")
	fctx.Request.SetRequestURI("/bind")
	arb := func(name string, lo, hi int) []byte {
		b := vBytes(name, vLen(name+"len", lo, hi))
		return b
	}
	hdr := func(name string, lo, hi int) []byte {
		b := arb(name, lo, hi)
		for i := range b {
			vAssume(vOr(b[i] >= 0x20, b[i] == '\t'))
			vAssume(b[i] != 0x7f)
		}
		return b
	}
	switch kind {
	case 0:
		q := arb("query", 0, 5)
		for i := range q {
			// bytes the request line can carry
			vAssume(q[i] > 0x20)
			vAssume(q[i] != 0x7f)
			vAssume(q[i] != '#')
		}
		fctx.Request.SetRequestURI("/bind?" + string(q))
	case 1:
		fctx.Request.Header.SetContentType("application/x-www-form-urlencoded")
		fctx.Request.SetBody(arb("form", 0, 5))
	case 2:
		fctx.Request.Header.SetBytesV("Cookie", hdr("cookie", 0, 5))
	case 3:
		// seven-bit bytes only: FilterFlags decodes runes, which the engine case-splits per lead byte
		ct := hdr("ctype", 0, 5)
		for i := range ct {
			vAssume(ct[i] < 0x80)
		}
		fctx.Request.Header.SetContentTypeBytes(ct)
		fctx.Request.SetBodyString("x=1")
	case 4:
		fctx.Request.Header.SetBytesV("X-Any", hdr("hval", 0, 4))
	}
	split := vBool("split")
	reject := func([]byte, any) error { return errVDecode }
	app := fiber.New(fiber.Config{EnableSplittingOnParsers: split, JSONDecoder: reject, XMLDecoder: reject, CBORDecoder: reject})
	var berr error
	ran := false
	multi := map[string][]string{}
	app.Post("/bind", func(ctx fiber.Ctx) error {
		ran = true
		b := ctx.Bind()
		if auto {
			b = b.WithAutoHandling()
		}
		switch kind {
		case 0:
			berr = b.Query(&multi)
		case 1, 3:
			berr = b.Body(&multi)
		case 2:
			berr = b.Cookie(&multi)
		case 4:
			berr = b.Header(&multi)
		}
		return berr
	})
	app.Handler()(fctx)
	vAssert(ran, "handler-ran")
	status := fctx.Response.StatusCode()
	if berr == nil {
		vReach("accepted")
		vAssert(status == 200, "accepted-200")
	} else {
		vReach("rejected")
		if auto && kind != 3 {
			var fe *fiber.Error
			vAssert(errors.As(berr, &fe) && fe.Code == 400, "auto-handling-gives-400-error")
			vAssert(status == 400, "auto-handling-status-400")
		}
		if kind == 3 {
			// unknown media type: 422; a decoder failure: 400 under automatic handling
			vAssert(vOr(status == 422, vOr(status == 400, status == 500)), "body-failure-status")
		}
	}
}

// ---------------------------------------------------------------------------
// the client's struct walker (SetValWithStruct, read-only reflection through the engine's bridge):
// every exported field of the supported kinds is emitted under its tag name as canonical text.

type vC11Struct struct {
	A      uint8    `param:"a" header:"a" cookie:"a" form:"a"`
	B      int8     `param:"b" header:"b" cookie:"b" form:"b"`
	U      uint64   `param:"u" header:"u" cookie:"u" form:"u"`
	I      int64    `param:"i" header:"i" cookie:"i" form:"i"`
	S      string   `param:"s" header:"s" cookie:"s" form:"s"`
	L      []string `param:"l" header:"l" cookie:"l" form:"l"`
	N      []uint8  `param:"n" header:"n" cookie:"n" form:"n"`
	F      bool     `param:"f" header:"f" cookie:"f" form:"f"`
	hidden uint8
	NoTag  uint8
}

// vParseDec: the decimal value of a canonical numeral (no sign, no leading zero unless "0").
func vParseDec(s string) (uint64, bool) {
	if len(s) == 0 || (len(s) > 1 && s[0] == '0') {
		return 0, false
	}
	var n uint64
	for i := 0; i < len(s); i++ {
		if s[i] < '0' || s[i] > '9' {
			return 0, false
		}
		n = n*10 + uint64(s[i]-'0')
	}
	return n, true
}

// VH_C11_walker: case = focus*4 + source (source 0 query params, 3 form, 2 cookies - which keep one
// value per name). focus: which numeric field is symbolic (the decimal formatter is case-split per
// value by the engine): 0 uint8 field, 1 int8 field, 2 uint8 slice element, 3 64-bit extremes.
func VH_C11_walker(caseID int) {
	src := caseID % 4
	focus := caseID / 4
	var umenu = []uint64{0, 9, 1 << 32, 1<<63 - 1, 1 << 63, 1<<64 - 1}
	var utext = []string{"0", "9", "4294967296", "9223372036854775807", "9223372036854775808", "18446744073709551615"}
	var imenu = []int64{0, -1, 1<<63 - 1, -1 << 63}
	var itext = []string{"0", "-1", "9223372036854775807", "-9223372036854775808"}
	ui, ii := 1, 1
	v := vC11Struct{A: 17, B: -5, F: vBool("F"), hidden: 7, NoTag: 3}
	n0 := uint8(42)
	switch focus {
	case 0:
		v.A = vByte("A")
		vAssume(vOr(v.A <= 40, v.A >= 216))
	case 1:
		b := vByte("B")
		vAssume(vOr(b <= 30, b >= 226))
		v.B = int8(b)
	case 2:
		n0 = vByte("N0")
		vAssume(vOr(n0 <= 40, n0 >= 216))
	case 3:
		ui = vChoice("u", len(umenu))
		ii = vChoice("i", len(imenu))
	}
	v.U, v.I = umenu[ui], imenu[ii]
	v.S = vC11Val("S", 3, 2, false)
	v.L = []string{vC11Val("L0", 3, 1, false), vC11Val("L1", 3, 1, false)}
	v.N = []uint8{n0, 200}
	req := AcquireRequest()
	var get func(string) []string
	switch src {
	case 0:
		req.SetParamsWithStruct(v)
		get = req.Param
	case 2:
		req.SetCookiesWithStruct(&v)
		get = func(k string) []string {
			if c := req.Cookie(k); c != "" {
				return []string{c}
			}
			return nil
		}
	case 3:
		req.SetFormDataWithStruct(&v)
		get = req.FormData
	}
	one := func(k string) string {
		l := get(k)
		vAssert(len(l) == 1, "one-value-for-"+k)
		if len(l) == 1 {
			return l[0]
		}
		return ""
	}
	a, aok := vParseDec(one("a"))
	vAssert(aok && a == uint64(v.A), "uint8-canonical-decimal")
	bt := one("b")
	if v.B < 0 {
		vAssert(len(bt) > 1 && bt[0] == '-', "negative-sign")
		if len(bt) > 1 {
			m, ok := vParseDec(bt[1:])
			vAssert(ok && m == uint64(-int64(v.B)), "int8-canonical-decimal")
		}
	} else {
		m, ok := vParseDec(bt)
		vAssert(ok && m == uint64(v.B), "int8-canonical-decimal")
	}
	vAssert(one("u") == utext[ui], "uint64-extremes")
	vAssert(one("i") == itext[ii], "int64-extremes")
	if src != 2 || v.S != "" {
		vAssert(one("s") == v.S, "string-verbatim")
	}
	if v.F {
		vAssert(one("f") == "true", "bool-true")
	} else {
		vAssert(one("f") == "false", "bool-false")
	}
	if src != 2 {
		l := get("l")
		vAssert(len(l) == 2, "string-slice-length")
		if len(l) == 2 {
			vAssert(l[0] == v.L[0] && l[1] == v.L[1], "string-slice-elements")
		}
		n := get("n")
		vAssert(len(n) == 2, "uint8-slice-length")
		if len(n) == 2 {
			n0, ok := vParseDec(n[0])
			vAssert(ok && n0 == uint64(v.N[0]), "uint8-slice-element")
			vAssert(n[1] == "200", "uint8-slice-element-1")
		}
	}
	vAssert(len(get("hidden")) == 0, "unexported-field-not-sent")
	nt, ntok := vParseDec(one("NoTag"))
	vAssert(ntok && nt == 3, "untagged-field-under-its-name")
	vReach("walked")
}
