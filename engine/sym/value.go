package sym

// Value representation, derived from golang.org/x/tools/go/ssa/interp (BSD licence),
// extended with symbolic scalars (*Term), symbolic/aliasing strings (symstr), ordered maps
// and an undo log.
//
// Dynamic types within value:
//   bool, intN, uintN, uintptr, floatN, complexN   concrete scalars
//   *Term                                         symbolic bool / integer (width from static type)
//   string                                        concrete immutable string
//   symstr                                        string whose bytes may be symbolic and/or alias a []byte
//   *omap                                         maps
//   *vchan                                        channels
//   []value                                       slices
//   iface, structure, array, *value (pointers), *symAddr (pointer to cell at symbolic index)
//   *ssa.Function, *ssa.Builtin, *closure          functions
//   tuple, iter, bad, rtype, **deferred

import (
	"bytes"
	"fmt"
	"go/types"
	"strings"
	"sync"
	"unsafe"

	"golang.org/x/tools/go/ssa"
	"golang.org/x/tools/go/types/typeutil"
)

type value interface{}

type tuple []value

type array []value

type iface struct {
	t types.Type // never an "untyped" type
	v value
}

type structure []value

// symstr is a string given by byte cells (uint8 or *Term of width 8). The cells may alias a
// mutable byte slice (unsafe conversions); strings are otherwise never written through.
type symstr struct {
	c []value
}

// symf64 is a symbolic non-negative, non-NaN float64 given by its IEEE-754 bits (for such values
// the numeric order equals the unsigned order of the bit patterns). Only comparisons are supported.
type symf64 struct {
	bits *Term
}

// symAddr is a pointer to cells[idx] for a symbolic idx already known to be in range.
type symAddr struct {
	cells []value
	idx   *Term
}

// sdata is the result of unsafe.SliceData / unsafe.StringData: a pointer to the first cell that
// still remembers the backing cells.
type sdata struct {
	cells []value
}

type iter interface {
	next(fr *frame) tuple
}

type closure struct {
	Fn  *ssa.Function
	Env []value
}

type bad struct{}

type rtype struct {
	t types.Type
}

var (
	hasherMu sync.Mutex
	hasher   = typeutil.MakeHasher()
)

func hashType(t types.Type) int {
	hasherMu.Lock()
	defer hasherMu.Unlock()
	return int(hasher.Hash(t))
}

// nil-tolerant variant of types.Identical.
func sameType(x, y types.Type) bool {
	if x == nil {
		return y == nil
	}
	return y != nil && types.Identical(x, y)
}

// ---------------------------------------------------------------------------
// scalar helpers

func isSym(v value) bool {
	_, ok := v.(*Term)
	return ok
}

// widthOf returns the bit width and signedness of a concrete scalar's dynamic type.
func scalarBits(v value) (w uint8, bitsv uint64, ok bool) {
	switch x := v.(type) {
	case bool:
		if x {
			return 0, 1, true
		}
		return 0, 0, true
	case int:
		return 64, uint64(x), true
	case int8:
		return 8, uint64(uint8(x)), true
	case int16:
		return 16, uint64(uint16(x)), true
	case int32:
		return 32, uint64(uint32(x)), true
	case int64:
		return 64, uint64(x), true
	case uint:
		return 64, uint64(x), true
	case uint8:
		return 8, uint64(x), true
	case uint16:
		return 16, uint64(x), true
	case uint32:
		return 32, uint64(x), true
	case uint64:
		return 64, x, true
	case uintptr:
		return 64, uint64(x), true
	}
	return 0, 0, false
}

// toTerm converts a scalar value (concrete or symbolic) to a term.
func (i *interpreter) toTerm(v value) *Term {
	if t, ok := v.(*Term); ok {
		return t
	}
	w, b, ok := scalarBits(v)
	if !ok {
		panic(abort(abUnsupported, fmt.Sprintf("toTerm: non-integer scalar %T", v)))
	}
	return i.tt.Const(w, b)
}

// fromBits builds the concrete Go value of basic kind k from raw bits.
func fromBits(k types.BasicKind, b uint64) value {
	switch k {
	case types.Bool, types.UntypedBool:
		return b != 0
	case types.Int, types.UntypedInt:
		return int(b)
	case types.Int8:
		return int8(b)
	case types.Int16:
		return int16(b)
	case types.Int32, types.UntypedRune:
		return int32(b)
	case types.Int64:
		return int64(b)
	case types.Uint:
		return uint(b)
	case types.Uint8:
		return uint8(b)
	case types.Uint16:
		return uint16(b)
	case types.Uint32:
		return uint32(b)
	case types.Uint64:
		return b
	case types.Uintptr:
		return uintptr(b)
	}
	panic(fmt.Sprintf("fromBits: kind %v", k))
}

func basicKind(t types.Type) (types.BasicKind, bool) {
	if b, ok := t.Underlying().(*types.Basic); ok {
		return b.Kind(), true
	}
	return 0, false
}

func kindWidth(k types.BasicKind) uint8 {
	switch k {
	case types.Bool, types.UntypedBool:
		return 0
	case types.Int8, types.Uint8:
		return 8
	case types.Int16, types.Uint16:
		return 16
	case types.Int32, types.Uint32, types.UntypedRune:
		return 32
	}
	return 64
}

func kindUnsigned(k types.BasicKind) bool {
	switch k {
	case types.Uint, types.Uint8, types.Uint16, types.Uint32, types.Uint64, types.Uintptr:
		return true
	}
	return false
}

// norm converts a constant term back to the concrete value of kind k; other terms stay.
func norm(k types.BasicKind, t *Term) value {
	if t.Op == OpConst {
		return fromBits(k, t.Val)
	}
	return t
}

// ---------------------------------------------------------------------------
// strings

func strLen(v value) int {
	switch s := v.(type) {
	case string:
		return len(s)
	case symstr:
		return len(s.c)
	}
	panic(fmt.Sprintf("strLen: %T", v))
}

// strCells returns the byte cells of a string value (fresh for Go strings).
func strCells(v value) []value {
	switch s := v.(type) {
	case string:
		c := make([]value, len(s))
		for i := 0; i < len(s); i++ {
			c[i] = s[i]
		}
		return c
	case symstr:
		return s.c
	}
	panic(fmt.Sprintf("strCells: %T", v))
}

// mkStringCopy builds an immutable string from a copy of cells.
func mkStringCopy(cells []value) value {
	allc := true
	for _, c := range cells {
		if _, ok := c.(uint8); !ok {
			allc = false
			break
		}
	}
	if allc {
		b := make([]byte, len(cells))
		for i, c := range cells {
			b[i] = c.(uint8)
		}
		return string(b)
	}
	c := make([]value, len(cells))
	copy(c, cells)
	return symstr{c}
}

// goString returns the concrete content of a string value, if fully concrete.
func goString(v value) (string, bool) {
	switch s := v.(type) {
	case string:
		return s, true
	case symstr:
		b := make([]byte, len(s.c))
		for i, c := range s.c {
			u, ok := c.(uint8)
			if !ok {
				return "", false
			}
			b[i] = u
		}
		return string(b), true
	}
	return "", false
}

// ---------------------------------------------------------------------------
// equality

// eqv returns x == y for type t as a bool or a *Term.
func (i *interpreter) eqv(t types.Type, x, y value) value {
	switch x := x.(type) {
	case *Term:
		return i.eqScalar(x, y)
	case bool, int, int8, int16, int32, int64, uint, uint8, uint16, uint32, uint64, uintptr:
		if ty, ok := y.(*Term); ok {
			return i.eqScalar(ty, x)
		}
		return x == y
	case float32:
		return x == y.(float32)
	case symf64:
		return i.termVal(i.tt.Eq(x.bits, i.floatBits(y)))
	case float64:
		if ys, ok := y.(symf64); ok {
			return i.termVal(i.tt.Eq(i.floatBits(x), ys.bits))
		}
		return x == y.(float64)
	case complex64:
		return x == y.(complex64)
	case complex128:
		return x == y.(complex128)
	case string:
		if ys, ok := y.(string); ok {
			return x == ys
		}
		return i.eqStr(x, y)
	case symstr:
		return i.eqStr(x, y)
	case *value:
		if yp, ok := y.(*value); ok {
			return x == yp
		}
		return false
	case *symAddr:
		panic(abort(abUnsupported, "comparison of symbolic-index pointer"))
	case sdata:
		if ys, ok := y.(sdata); ok {
			return len(x.cells) > 0 && len(ys.cells) > 0 && &x.cells[0] == &ys.cells[0] || len(x.cells) == 0 && len(ys.cells) == 0
		}
		return false
	case unsafe.Pointer:
		return x == y.(unsafe.Pointer)
	case *vchan:
		return x == y.(*vchan)
	case structure:
		y := y.(structure)
		tStruct := t.Underlying().(*types.Struct)
		var acc value = true
		for k, n := 0, tStruct.NumFields(); k < n; k++ {
			if f := tStruct.Field(k); f.Name() != "_" {
				acc = i.andv(acc, i.eqv(f.Type(), x[k], y[k]))
				if acc == false {
					return false
				}
			}
		}
		return acc
	case array:
		y := y.(array)
		tElt := t.Underlying().(*types.Array).Elem()
		var acc value = true
		for k := range x {
			acc = i.andv(acc, i.eqv(tElt, x[k], y[k]))
			if acc == false {
				return false
			}
		}
		return acc
	case iface:
		y := y.(iface)
		if !sameType(x.t, y.t) {
			return false
		}
		if x.t == nil {
			return true
		}
		if !types.Comparable(x.t) {
			panic(targetPanic{i.runtimeError("runtime error: comparing uncomparable type " + x.t.String())})
		}
		return i.eqv(x.t, x.v, y.v)
	case rtype:
		return types.Identical(x.t, y.(rtype).t)
	}
	panic(fmt.Sprintf("comparing uncomparable type %s (%T)", t, x))
}

func (i *interpreter) eqScalar(x *Term, y value) value {
	ty := i.toTerm(y)
	r := i.tt.Eq(x, ty)
	if r.Op == OpConst {
		return r.Val != 0
	}
	return r
}

func (i *interpreter) eqStr(x, y value) value {
	if strLen(x) != strLen(y) {
		return false
	}
	cx, cy := strCells(x), strCells(y)
	var acc value = true
	for k := range cx {
		acc = i.andv(acc, i.eqv(nil, cx[k], cy[k]))
		if acc == false {
			return false
		}
	}
	return acc
}

func (i *interpreter) andv(a, b value) value {
	if ab, ok := a.(bool); ok {
		if !ab {
			return false
		}
		return b
	}
	if bb, ok := b.(bool); ok {
		if !bb {
			return false
		}
		return a
	}
	r := i.tt.And(a.(*Term), b.(*Term))
	if r.Op == OpConst {
		return r.Val != 0
	}
	return r
}

func (i *interpreter) orv(a, b value) value {
	if ab, ok := a.(bool); ok {
		if ab {
			return true
		}
		return b
	}
	if bb, ok := b.(bool); ok {
		if bb {
			return true
		}
		return a
	}
	r := i.tt.Or(a.(*Term), b.(*Term))
	if r.Op == OpConst {
		return r.Val != 0
	}
	return r
}

func (i *interpreter) notv(a value) value {
	if ab, ok := a.(bool); ok {
		return !ab
	}
	r := i.tt.Not(a.(*Term))
	if r.Op == OpConst {
		return r.Val != 0
	}
	return r
}

// boolTerm converts a bool-ish value to a term.
func (i *interpreter) boolTerm(a value) *Term {
	if ab, ok := a.(bool); ok {
		return i.tt.Bool(ab)
	}
	return a.(*Term)
}

// ---------------------------------------------------------------------------
// canonical keys for concrete map keys

type ckIface struct {
	t int
	v interface{}
}

// canonKey returns a Go-comparable key for a fully concrete map key, or ok=false.
func canonKey(t types.Type, v value) (interface{}, bool) {
	switch x := v.(type) {
	case *Term:
		return nil, false
	case bool, int, int8, int16, int32, int64, uint, uint8, uint16, uint32, uint64, uintptr, float32, float64, complex64, complex128, string, *value, *vchan, unsafe.Pointer:
		return x, true
	case symstr:
		s, ok := goString(x)
		return s, ok
	case iface:
		if x.t == nil {
			return ckIface{0, nil}, true
		}
		k, ok := canonKey(x.t, x.v)
		if !ok {
			return nil, false
		}
		return ckIface{hashType(x.t) + 1, k}, true
	case structure:
		var sb strings.Builder
		st := t.Underlying().(*types.Struct)
		for k := range x {
			ck, ok := canonKey(st.Field(k).Type(), x[k])
			if !ok {
				return nil, false
			}
			fmt.Fprintf(&sb, "%T:%v|", ck, ck)
		}
		return "S" + sb.String(), true
	case array:
		var sb strings.Builder
		et := t.Underlying().(*types.Array).Elem()
		for k := range x {
			ck, ok := canonKey(et, x[k])
			if !ok {
				return nil, false
			}
			fmt.Fprintf(&sb, "%T:%v|", ck, ck)
		}
		return "A" + sb.String(), true
	case rtype:
		return ckIface{hashType(x.t) + 1, "rtype"}, true
	}
	return nil, false
}

// ---------------------------------------------------------------------------
// memory: load/store with undo log

type undoRec struct {
	addr *value
	old  value
	fn   func()
}

func (i *interpreter) wr(addr *value, v value) {
	if i.undoOn {
		i.undo = append(i.undo, undoRec{addr: addr, old: *addr})
	}
	*addr = v
}

func (i *interpreter) logUndo(fn func()) {
	if i.undoOn {
		i.undo = append(i.undo, undoRec{fn: fn})
	}
}

func (i *interpreter) rollback(mark int) {
	for k := len(i.undo) - 1; k >= mark; k-- {
		u := i.undo[k]
		if u.fn != nil {
			u.fn()
		} else {
			*u.addr = u.old
		}
	}
	for k := mark; k < len(i.undo); k++ {
		i.undo[k] = undoRec{}
	}
	i.undo = i.undo[:mark]
}

// load returns the value of type T in *addr.
func (i *interpreter) load(T types.Type, p value) value {
	switch a := p.(type) {
	case *value:
		if a == nil {
			panic(targetPanic{i.runtimeError("invalid memory address or nil pointer dereference")})
		}
		return i.loadCell(T, a)
	case *symAddr:
		return i.selectCell(a.cells, a.idx)
	case sdata:
		if len(a.cells) == 0 {
			panic(targetPanic{i.runtimeError("invalid memory address or nil pointer dereference")})
		}
		return a.cells[0]
	}
	panic(fmt.Sprintf("load: bad pointer %T", p))
}

func (i *interpreter) loadCell(T types.Type, addr *value) value {
	switch T := T.Underlying().(type) {
	case *types.Struct:
		if no, ok := (*addr).(nativeObj); ok {
			return no
		}
		v := (*addr).(structure)
		a := make(structure, len(v))
		for k := range a {
			a[k] = i.loadCell(T.Field(k).Type(), &v[k])
		}
		return a
	case *types.Array:
		v := (*addr).(array)
		a := make(array, len(v))
		for k := range a {
			a[k] = i.loadCell(T.Elem(), &v[k])
		}
		return a
	case *types.Basic:
		// unsafe reinterpretation *(*string)(unsafe.Pointer(&bytes))
		if T.Kind() == types.String {
			if b, ok := (*addr).([]value); ok {
				return symstr{b}
			}
		}
		return *addr
	case *types.Slice:
		// *(*[]byte)(unsafe.Pointer(&str))
		switch s := (*addr).(type) {
		case string:
			return strCells(s)
		case symstr:
			return s.c
		}
		return *addr
	default:
		return *addr
	}
}

// store stores value v of type T into *p.
func (i *interpreter) store(T types.Type, p value, v value) {
	switch a := p.(type) {
	case *value:
		if a == nil {
			panic(targetPanic{i.runtimeError("invalid memory address or nil pointer dereference")})
		}
		i.storeCell(T, a, v)
		return
	case *symAddr:
		// cells[j] = ite(idx==j, v, cells[j])
		vt := i.toTerm(v)
		for j := range a.cells {
			old := i.toTerm(a.cells[j])
			c := i.tt.Eq(a.idx, i.tt.Const(a.idx.W, uint64(j)))
			nv := i.tt.Ite(c, vt, old)
			var nvv value = nv
			if nv.Op == OpConst {
				if k, ok := basicKind(T); ok {
					nvv = fromBits(k, nv.Val)
				}
			}
			i.wr(&a.cells[j], nvv)
		}
		return
	case sdata:
		i.wr(&a.cells[0], v)
		return
	}
	panic(fmt.Sprintf("store: bad pointer %T", p))
}

func (i *interpreter) storeCell(T types.Type, addr *value, v value) {
	switch T := T.Underlying().(type) {
	case *types.Struct:
		if _, ok := v.(nativeObj); ok {
			i.wr(addr, v)
			return
		}
		lhs := (*addr).(structure)
		rhs := v.(structure)
		for k := range lhs {
			i.storeCell(T.Field(k).Type(), &lhs[k], rhs[k])
		}
	case *types.Array:
		lhs := (*addr).(array)
		rhs := v.(array)
		for k := range lhs {
			i.storeCell(T.Elem(), &lhs[k], rhs[k])
		}
	default:
		i.wr(addr, v)
	}
}

// selectCell builds cells[idx] as a balanced ite tree (cells must be scalars; idx in range).
func (i *interpreter) selectCell(cells []value, idx *Term) value {
	if len(cells) == 0 {
		panic("selectCell: empty")
	}
	return i.selRange(cells, 0, len(cells)-1, idx)
}

func (i *interpreter) selRange(cells []value, lo, hi int, idx *Term) *Term {
	if lo == hi {
		return i.toTerm(cells[lo])
	}
	mid := (lo + hi) / 2
	l := i.selRange(cells, lo, mid, idx)
	r := i.selRange(cells, mid+1, hi, idx)
	if l == r {
		return l
	}
	return i.tt.Ite(i.tt.Bin(OpULe, idx, i.tt.Const(idx.W, uint64(mid))), l, r)
}

// ---------------------------------------------------------------------------
// printing

func writeValue(buf *bytes.Buffer, v value) {
	switch v := v.(type) {
	case nil, bool, int, int8, int16, int32, int64, uint, uint8, uint16, uint32, uint64, uintptr, float32, float64, complex64, complex128, string:
		fmt.Fprintf(buf, "%v", v)
	case *Term:
		s := v.String()
		if len(s) > 80 {
			s = s[:80] + "…"
		}
		buf.WriteString("‹" + s + "›")
	case symstr:
		buf.WriteString("s\"")
		for _, c := range v.c {
			if u, ok := c.(uint8); ok {
				if u >= 0x20 && u < 0x7f {
					buf.WriteByte(u)
				} else {
					fmt.Fprintf(buf, "\\x%02x", u)
				}
			} else {
				buf.WriteString("?")
			}
		}
		buf.WriteString("\"")
	case *omap:
		buf.WriteString("map[")
		if v != nil {
			for k, e := range v.ents {
				if k > 0 {
					buf.WriteString(" ")
				}
				writeValue(buf, e.k)
				buf.WriteString(":")
				writeValue(buf, e.v)
			}
		}
		buf.WriteString("]")
	case *vchan:
		fmt.Fprintf(buf, "chan%p", v)
	case *value:
		if v == nil {
			buf.WriteString("<nil>")
		} else {
			fmt.Fprintf(buf, "%p", v)
		}
	case iface:
		fmt.Fprintf(buf, "(%s, ", v.t)
		writeValue(buf, v.v)
		buf.WriteString(")")
	case structure:
		buf.WriteString("{")
		for i, e := range v {
			if i > 0 {
				buf.WriteString(" ")
			}
			writeValue(buf, e)
		}
		buf.WriteString("}")
	case array:
		buf.WriteString("[")
		for i, e := range v {
			if i > 0 {
				buf.WriteString(" ")
			}
			writeValue(buf, e)
		}
		buf.WriteString("]")
	case []value:
		buf.WriteString("[")
		for i, e := range v {
			if i > 0 {
				buf.WriteString(" ")
			}
			if i > 40 {
				buf.WriteString("…")
				break
			}
			writeValue(buf, e)
		}
		buf.WriteString("]")
	case *ssa.Function:
		if v == nil {
			buf.WriteString("func<nil>")
		} else {
			buf.WriteString(v.String())
		}
	case *ssa.Builtin, *closure:
		fmt.Fprintf(buf, "%p", v)
	case rtype:
		buf.WriteString(v.t.String())
	case tuple:
		buf.WriteString("(")
		for i, e := range v {
			if i > 0 {
				buf.WriteString(", ")
			}
			writeValue(buf, e)
		}
		buf.WriteString(")")
	default:
		fmt.Fprintf(buf, "<%T>", v)
	}
}

func toString(v value) string {
	var b bytes.Buffer
	writeValue(&b, v)
	return b.String()
}
