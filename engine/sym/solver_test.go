package sym

import "testing"

func TestSolverBasic(t *testing.T) {
	for _, kind := range []string{"z3", "z3-new", "cvc5"} {
		s, err := NewSolver(kind, 10000)
		if err != nil {
			t.Fatal(kind, err)
		}
		tt := NewTermTable()
		x := tt.Var("x", 8)
		y := tt.Var("y y", 8)
		s.Push()
		s.Assert(tt.Eq(tt.Bin(OpAdd, x, y), tt.Const(8, 10)))
		s.Assert(tt.Bin(OpULt, x, tt.Const(8, 3)))
		r, m, err := s.CheckWith(tt.Eq(x, tt.Const(8, 2)), map[string]uint8{"x": 8, "y y": 8})
		if err != nil || r != Sat || m["x"] != 2 || m["y y"] != 8 {
			t.Fatal(kind, r, m, err)
		}
		r, _, err = s.CheckWith(tt.Eq(x, tt.Const(8, 5)), nil)
		if err != nil || r != Unsat {
			t.Fatal(kind, r, err)
		}
		s.Pop()
		s.Push()
		s.Assert(tt.Eq(tt.Bin(OpAdd, x, y), tt.Const(8, 10)))
		r, err = s.Check()
		if err != nil || r != Sat {
			t.Fatal(kind, r, err)
		}
		s.Pop()
		s.Close()
	}
}
