package sym

// Engine threads (one host goroutine each, exactly one running at a time), channels, select,
// and the models of sync primitives.

import (
	"fmt"
	"go/token"
	"go/types"
	"runtime"
	"strings"

	"golang.org/x/tools/go/ssa"
)

type thread struct {
	sleeping   bool    // blocked in time.Sleep (woken by the next vAdvance)
	background bool    // started by a go statement of the code under test (not by vSpawn)
	parent     *thread
	id      int
	wake    chan struct{}
	done    bool
	daemon  bool
	canRun  func() bool // nil = runnable
	waitWhy string
}

type scheduler struct {
	threads  []*thread
	cur      *thread
	killing  bool
	abortVal interface{} // abort raised by a non-main thread, to be re-raised by main
	exited   chan struct{}
	nlive    int
	switches int
	enabled  bool // scheduling decisions at yield points (otherwise run-to-block)
	preemptBound int // -1 = unbounded
	preemptions  int
}

func (i *interpreter) resetSched() {
	main := &thread{id: 0, wake: make(chan struct{}, 1)}
	// a fresh scheduler object per path: goroutines of an earlier path keep referring to theirs
	i.sched = &scheduler{threads: []*thread{main}, cur: main, exited: make(chan struct{}, 256), preemptBound: -1}
}

func (t *thread) runnable() bool {
	return !t.done && (t.canRun == nil || t.canRun())
}

// spawn starts a new engine thread for a go statement.
func (i *interpreter) spawn(fr *frame, site ssa.Instruction, fn value, args []value) {
	s := i.sched
	t := &thread{id: len(s.threads), wake: make(chan struct{}, 1)}
	// goroutines started from non-target packages (tickers, updaters) are daemons
	if fr != nil && !i.isTargetFn(fr.fn) {
		t.daemon = true
	}
	if _, isGo := site.(*ssa.Go); isGo {
		// background goroutines (tickers, janitors) run eagerly to their first blocking point and
		// are not scheduling alternatives
		t.background = true
		t.parent = s.cur
	}
	s.threads = append(s.threads, t)
	s.nlive++
	go func() {
		<-t.wake
		defer func() {
			r := recover()
			t.done = true
			s.nlive--
			if r != nil {
				if pa, ok := r.(pathAbort); ok && pa.kind == abExit {
					// killed at path end
				} else if s.abortVal == nil {
					if tp, ok := r.(targetPanic); ok {
						s.abortVal = threadPanic{tp, t.id}
					} else if isAbort(r) || isEngineBug(r) {
						s.abortVal = r
					} else {
						buf := make([]byte, 1<<14)
						n := runtime.Stack(buf, false)
						s.abortVal = engineBug{p: r, stack: string(buf[:n])}
					}
				}
			}
			if s.killing {
				s.exited <- struct{}{}
				return
			}
			// hand the baton to someone else
			i.passBaton(t)
		}()
		if s.killing {
			panic(abort(abExit, "killed"))
		}
		i.call(nil, token.NoPos, fn, args, site)
	}()
	if t.background {
		cur := s.cur
		s.cur = t
		t.wake <- struct{}{}
		<-cur.wake
		i.checkKilledT(cur)
		return
	}
	i.yield("go")
}

type threadPanic struct {
	tp  targetPanic
	tid int
}

// passBaton is called by a finished thread: wake another runnable thread (main preferred when an
// abort is pending).
func (i *interpreter) passBaton(from *thread) {
	s := i.sched
	if s.abortVal != nil {
		s.cur = s.threads[0]
		s.threads[0].canRun = nil
		s.threads[0].wake <- struct{}{}
		return
	}
	next := i.pickNext(from, "thread exit")
	if next == nil {
		// nothing runnable: wake main to report deadlock
		s.abortVal = deadlock{}
		s.cur = s.threads[0]
		s.threads[0].wake <- struct{}{}
		return
	}
	s.cur = next
	next.wake <- struct{}{}
}

type deadlock struct{}

// pickNext chooses the next thread to run among runnable ones (decision).
func (i *interpreter) pickNext(cur *thread, why string) *thread {
	s := i.sched
	var cands []*thread
	if cur != nil && cur.background && !cur.runnable() && cur.parent != nil && cur.parent.runnable() {
		// a background thread that blocks hands control back to whoever started it
		return cur.parent
	}
	if cur != nil && cur.runnable() {
		cands = append(cands, cur)
	}
	var bg []*thread
	for _, t := range s.threads {
		if t != cur && t.runnable() {
			if t.background {
				bg = append(bg, t)
			} else {
				cands = append(cands, t)
			}
		}
	}
	if len(cands) == 0 {
		cands = bg
	}
	if len(cands) == 0 {
		return nil
	}
	if len(cands) == 1 {
		return cands[0]
	}
	if !s.enabled {
		// run-to-block: keep the current thread if it can run, else lowest id
		return cands[0]
	}
	// bounded preemption: once the bound is used up a thread that can continue is not preempted
	if cur != nil && cur.runnable() && s.preemptBound >= 0 && s.preemptions >= s.preemptBound {
		return cur
	}
	k := i.choice(len(cands), "sched:"+why)
	if cur != nil && cur.runnable() && cands[k] != cur {
		s.preemptions++
	}
	return cands[k]
}

// yield is a scheduling point for the current thread.
func (i *interpreter) yield(why string) {
	s := i.sched
	if len(s.threads) == 1 {
		return
	}
	cur := s.cur
	i.checkKilled()
	if s.enabled && !schedPoint(why) {
		return
	}
	next := i.pickNext(cur, why)
	if next == nil {
		i.deadlocked()
		return
	}
	if next == cur {
		return
	}
	s.switches++
	s.cur = next
	next.wake <- struct{}{}
	<-cur.wake
	i.checkKilledT(cur)
}

// blockUntil suspends the current thread until cond holds.
func (i *interpreter) blockUntil(cond func() bool, why string) {
	s := i.sched
	cur := s.cur
	if cond() {
		return
	}
	cur.canRun = cond
	cur.waitWhy = why
	for {
		next := i.pickNext(cur, why)
		if next == nil {
			if cur.daemon && cur.id != 0 && s.threads[0].done {
				// a background thread with nothing to wait for: park until killed
				<-cur.wake
				i.checkKilledT(cur)
				continue
			}
			cur.canRun = nil
			i.deadlocked()
			return
		}
		if next == cur {
			break
		}
		s.switches++
		s.cur = next
		next.wake <- struct{}{}
		<-cur.wake
		i.checkKilledT(cur)
		if cond() {
			break
		}
	}
	cur.canRun = nil
}

func (i *interpreter) checkKilled() { i.checkKilledT(i.sched.cur) }

// checkKilledT is called by thread t after it has been woken (or before it yields).
func (i *interpreter) checkKilledT(t *thread) {
	s := i.sched
	if s.killing && t.id != 0 {
		panic(abort(abExit, "killed"))
	}
	if t.id == 0 && s.abortVal != nil {
		v := s.abortVal
		s.abortVal = nil
		switch v := v.(type) {
		case threadPanic:
			i.recordViolation("goroutine-panic", "uncaught panic in goroutine: "+toString(v.tp.v))
			panic(abort(abViolation, "goroutine panic"))
		case deadlock:
			i.deadlocked()
		default:
			panic(v)
		}
	}
}

func (i *interpreter) deadlocked() {
	s := i.sched
	// only daemons blocked and main blocked => real deadlock if a non-daemon is blocked
	msg := "deadlock:"
	for _, t := range s.threads {
		if !t.done && !t.runnable() {
			msg += fmt.Sprintf(" T%d(%s)", t.id, t.waitWhy)
		}
	}
	if s.cur.id != 0 {
		// let main report
		s.abortVal = deadlock{}
		s.cur.canRun = func() bool { return false }
		cur := s.cur
		s.cur = s.threads[0]
		s.threads[0].canRun = nil
		s.threads[0].wake <- struct{}{}
		<-cur.wake
		panic(abort(abExit, "killed"))
	}
	i.recordViolation("deadlock", msg)
	panic(abort(abViolation, msg))
}

// killThreads terminates all non-main threads at the end of a path.
func (i *interpreter) killThreads() {
	s := i.sched
	s.killing = true
	// every other thread is parked now (only the caller runs): count first, then wake them all
	var live []*thread
	for _, t := range s.threads[1:] {
		if !t.done {
			live = append(live, t)
		}
	}
	for _, t := range live {
		select {
		case t.wake <- struct{}{}:
		default:
		}
	}
	for range live {
		<-s.exited
	}
}

// ---------------------------------------------------------------------------
// channels

type vchan struct {
	buf      []value
	capacity int
	closed   bool
	elem     types.Type
	recvWait int // receivers currently blocked (for unbuffered rendezvous)
	timer    bool // never becomes ready on its own (time.After / ticker)
}

func (c *vchan) length() int {
	if c == nil {
		return 0
	}
	return len(c.buf)
}

func (fr *frame) chanSend(c *vchan, v value) {
	i := fr.i
	if c == nil {
		i.blockUntil(func() bool { return false }, "send on nil chan")
		return
	}
	i.yield("chan send")
	if c.closed {
		panic(targetPanic{i.runtimeError("send on closed channel")})
	}
	if c.capacity > 0 {
		i.blockUntil(func() bool { return c.closed || len(c.buf) < c.capacity }, "chan send (full)")
		if c.closed {
			panic(targetPanic{i.runtimeError("send on closed channel")})
		}
		old := c.buf
		c.buf = append(append([]value{}, c.buf...), v)
		i.logUndo(func() { c.buf = old })
		return
	}
	// unbuffered: wait for a receiver, deposit, wait until taken
	i.blockUntil(func() bool { return c.closed || (c.recvWait > 0 && len(c.buf) == 0) }, "chan send (no receiver)")
	if c.closed {
		panic(targetPanic{i.runtimeError("send on closed channel")})
	}
	old := c.buf
	c.buf = []value{v}
	i.logUndo(func() { c.buf = old })
	i.blockUntil(func() bool { return len(c.buf) == 0 }, "chan send (handoff)")
}

func (fr *frame) chanRecv(instr *ssa.UnOp, c *vchan) value {
	i := fr.i
	var v value
	ok := true
	if c == nil {
		i.blockUntil(func() bool { return false }, "recv on nil chan")
	}
	i.yield("chan recv")
	c.recvWait++
	i.blockUntil(func() bool { return len(c.buf) > 0 || c.closed }, "chan recv")
	c.recvWait--
	if len(c.buf) > 0 {
		old := c.buf
		v = c.buf[0]
		c.buf = append([]value{}, c.buf[1:]...)
		i.logUndo(func() { c.buf = old })
	} else {
		ok = false
		v = zero(instr.X.Type().Underlying().(*types.Chan).Elem())
	}
	if instr.CommaOk {
		return tuple{v, ok}
	}
	return v
}

func (fr *frame) chanClose(c *vchan) {
	i := fr.i
	if c == nil {
		panic(targetPanic{i.runtimeError("close of nil channel")})
	}
	if c.closed {
		panic(targetPanic{i.runtimeError("close of closed channel")})
	}
	c.closed = true
	i.logUndo(func() { c.closed = false })
	i.yield("chan close")
}

func (fr *frame) doSelect(instr *ssa.Select) value {
	i := fr.i
	type cs struct {
		c    *vchan
		send bool
		v    value
	}
	var cases []cs
	for _, st := range instr.States {
		c, _ := fr.get(st.Chan).(*vchan)
		x := cs{c: c, send: st.Dir == types.SendOnly}
		if x.send {
			x.v = fr.get(st.Send)
		}
		cases = append(cases, x)
	}
	i.yield("select")
	ready := func(k int) bool {
		x := cases[k]
		if x.c == nil {
			return false
		}
		if x.send {
			if x.c.closed {
				return true
			}
			if x.c.capacity > 0 {
				return len(x.c.buf) < x.c.capacity
			}
			return x.c.recvWait > 0 && len(x.c.buf) == 0
		}
		return len(x.c.buf) > 0 || x.c.closed
	}
	anyReady := func() bool {
		for k := range cases {
			if ready(k) {
				return true
			}
		}
		return false
	}
	chosen := -1
	if !anyReady() {
		if !instr.Blocking {
			chosen = -1
		} else {
			for _, x := range cases {
				if !x.send && x.c != nil {
					x.c.recvWait++
				}
			}
			i.blockUntil(anyReady, "select")
			for _, x := range cases {
				if !x.send && x.c != nil {
					x.c.recvWait--
				}
			}
		}
	}
	var rdy []int
	for k := range cases {
		if ready(k) {
			rdy = append(rdy, k)
		}
	}
	if len(rdy) > 0 {
		chosen = rdy[0]
		if len(rdy) > 1 {
			chosen = rdy[i.choice(len(rdy), "select")]
		}
	}
	recvOk := false
	var recvV value
	if chosen >= 0 {
		x := cases[chosen]
		if x.send {
			if x.c.closed {
				panic(targetPanic{i.runtimeError("send on closed channel")})
			}
			old := x.c.buf
			x.c.buf = append(append([]value{}, x.c.buf...), x.v)
			i.logUndo(func() { x.c.buf = old })
			if x.c.capacity == 0 {
				i.blockUntil(func() bool { return len(x.c.buf) == 0 }, "select send (handoff)")
			}
		} else if len(x.c.buf) > 0 {
			old := x.c.buf
			recvV = x.c.buf[0]
			x.c.buf = append([]value{}, x.c.buf[1:]...)
			i.logUndo(func() { x.c.buf = old })
			recvOk = true
		}
	}
	r := tuple{chosen, recvOk}
	for k, st := range instr.States {
		if st.Dir == types.RecvOnly {
			var v value
			if k == chosen && recvOk {
				v = recvV
			} else {
				v = zero(st.Chan.Type().Underlying().(*types.Chan).Elem())
			}
			r = append(r, v)
		}
	}
	return r
}

// schedPoint selects the yield points at which a context switch is explored: harness-visible
// points (storage / locker / handler stubs, prefixed "h:"), channel operations, compare-and-swap
// and thread start; a thread that cannot proceed (lock held, empty channel) always switches.
// Lock acquisitions, unlocks and plain atomics are not switch points of their own: code between
// two selected points runs atomically, which is the granularity the properties state
// ("interleavings at storage / handler / lock boundaries" — a lock boundary is visible as the
// blocking of the other thread).
func schedPoint(why string) bool {
	if strings.HasPrefix(why, "h:") || strings.HasPrefix(why, "chan") {
		return true
	}
	switch why {
	case "go", "select", "Gosched", "atomic-cas":
		return true
	}
	return false
}

// runSleepers lets every background thread that sleeps in time.Sleep run up to its next blocking
// point; called after the virtual clock advanced.
func (i *interpreter) runSleepers() {
	s := i.sched
	cur := s.cur
	for _, t := range s.threads {
		if t.background && t.sleeping && !t.done && t.canRun != nil && t.canRun() {
			t.parent = cur
			s.cur = t
			t.wake <- struct{}{}
			<-cur.wake
			i.checkKilledT(cur)
		}
	}
}
