package sym

// A long-lived SMT solver process fed SMT-LIB2 over a pipe.

import (
	"bufio"
	"fmt"
	"io"
	"os"
	"os/exec"
	"strconv"
	"strings"
	"time"
)

type Result int

const (
	Unsat Result = iota
	Sat
	Unknown
)

func (r Result) String() string { return [...]string{"unsat", "sat", "unknown"}[r] }

type Solver struct {
	Kind    string
	cmd     *exec.Cmd
	in      io.WriteCloser
	out     *bufio.Reader
	sb      strings.Builder
	em      Emitter
	scopes  [][]*Term // terms emitted per scope
	Queries int
	NSat    int
	NUnsat  int
	NUnk    int
	Time    time.Duration
	ModelTime time.Duration
	LastErr string
	Log     io.Writer // optional transcript
}

func NewSolver(kind string, timeoutMs int) (*Solver, error) {
	var cmd *exec.Cmd
	switch kind {
	case "z3", "z3-new":
		cmd = exec.Command(kind, "-in", "-smt2")
	case "cvc5":
		cmd = exec.Command("cvc5", "--incremental", "--lang=smt2", "--produce-models", fmt.Sprintf("--tlimit-per=%d", timeoutMs))
	default:
		return nil, fmt.Errorf("unknown solver %q", kind)
	}
	in, err := cmd.StdinPipe()
	if err != nil {
		return nil, err
	}
	outp, err := cmd.StdoutPipe()
	if err != nil {
		return nil, err
	}
	cmd.Stderr = cmd.Stdout
	if err := cmd.Start(); err != nil {
		return nil, err
	}
	s := &Solver{Kind: kind, cmd: cmd, in: in, out: bufio.NewReaderSize(outp, 1<<16)}
	if p := os.Getenv("GOSYM_SMTLOG"); p != "" {
		f, _ := os.Create(p)
		s.Log = f
	}
	s.em = Emitter{emitted: make(map[*Term]bool), sb: &s.sb, declared: map[string]bool{}}
	s.scopes = [][]*Term{nil}
	if kind == "cvc5" {
		s.sb.WriteString("(set-logic ALL)\n")
	} else {
		s.sb.WriteString("(set-option :produce-models true)\n")
		fmt.Fprintf(&s.sb, "(set-option :timeout %d)\n", timeoutMs)
	}
	if _, err := s.roundTrip(); err != nil {
		return nil, err
	}
	return s, nil
}

func (s *Solver) Close() {
	if s.cmd != nil {
		s.in.Close()
		s.cmd.Process.Kill()
		s.cmd.Wait()
		s.cmd = nil
	}
}

const doneMark = "<<gosym-done>>"

// roundTrip flushes the pending text plus an echo marker and returns the lines printed before it.
func (s *Solver) roundTrip() ([]string, error) {
	s.sb.WriteString("(echo \"" + doneMark + "\")\n")
	txt := s.sb.String()
	s.sb.Reset()
	if s.Log != nil {
		io.WriteString(s.Log, txt)
	}
	if _, err := io.WriteString(s.in, txt); err != nil {
		return nil, err
	}
	var lines []string
	for {
		line, err := s.out.ReadString('\n')
		if err != nil {
			return lines, fmt.Errorf("solver %s died: %v (%v)", s.Kind, err, lines)
		}
		line = strings.TrimSpace(line)
		if strings.Contains(line, doneMark) {
			break
		}
		if line != "" {
			lines = append(lines, line)
		}
	}
	if s.Log != nil {
		fmt.Fprintf(s.Log, "; -> %v\n", lines)
	}
	return lines, nil
}

func (s *Solver) emitTerm(t *Term) string {
	s.em.rec = &s.scopes[len(s.scopes)-1]
	s.em.emit(t)
	return s.em.ref(t)
}

func (s *Solver) Push() {
	s.sb.WriteString("(push 1)\n")
	s.scopes = append(s.scopes, nil)
}

func (s *Solver) Pop() {
	s.sb.WriteString("(pop 1)\n")
	top := s.scopes[len(s.scopes)-1]
	for _, t := range top {
		delete(s.em.emitted, t)
		if t.Op == OpVar {
			delete(s.em.declared, t.Name)
		}
	}
	s.scopes = s.scopes[:len(s.scopes)-1]
}

// Depth returns the number of open scopes above the base.
func (s *Solver) Depth() int { return len(s.scopes) - 1 }

func (s *Solver) Assert(t *Term) {
	if t.W != 0 {
		panic("Assert: non-bool term")
	}
	r := s.emitTerm(t)
	fmt.Fprintf(&s.sb, "(assert %s)\n", r)
}

// Check runs check-sat on the current assertion stack.
func (s *Solver) Check() (Result, error) {
	s.sb.WriteString("(check-sat)\n")
	t0 := time.Now()
	lines, err := s.roundTrip()
	s.Time += time.Since(t0)
	s.Queries++
	if err != nil {
		return Unknown, err
	}
	res := Unknown
	got := false
	for _, l := range lines {
		if strings.HasPrefix(l, "(error") || strings.Contains(l, "error") && !strings.HasPrefix(l, "sat") && !strings.HasPrefix(l, "unsat") {
			s.LastErr = l
			s.NUnk++
			return Unknown, fmt.Errorf("solver error: %s", l)
		}
		switch l {
		case "sat":
			res, got = Sat, true
		case "unsat":
			res, got = Unsat, true
		case "unknown", "timeout":
			res, got = Unknown, true
		}
	}
	if !got {
		s.NUnk++
		return Unknown, fmt.Errorf("solver gave no answer: %v", lines)
	}
	switch res {
	case Sat:
		s.NSat++
	case Unsat:
		s.NUnsat++
	default:
		s.NUnk++
	}
	return res, nil
}

// CheckWith checks the stack plus an extra assumption in a temporary scope. If wantModel and sat,
// the values of vars are returned.
func (s *Solver) CheckWith(extra *Term, vars map[string]uint8) (Result, Model, error) {
	s.Push()
	defer func() {
		s.Pop()
	}()
	if extra != nil {
		s.Assert(extra)
	}
	r, err := s.Check()
	if err != nil || r != Sat || vars == nil {
		return r, nil, err
	}
	m, err := s.GetModel(vars)
	return r, m, err
}

// GetModel must follow a sat answer.
func (s *Solver) GetModel(vars map[string]uint8) (Model, error) {
	m := Model{}
	if len(vars) == 0 {
		return m, nil
	}
	asked := 0
	for name := range vars {
		if !s.em.declared[name] {
			m[name] = 0
		} else {
			asked++
		}
	}
	if asked == 0 {
		return m, nil
	}
	s.sb.WriteString("(get-value (")
	for name := range vars {
		if s.em.declared[name] {
			s.sb.WriteString(smtName(name))
			s.sb.WriteByte(' ')
		}
	}
	s.sb.WriteString("))\n")
	t0 := time.Now()
	lines, err := s.roundTrip()
	s.ModelTime += time.Since(t0)
	if err != nil {
		return nil, err
	}
	txt := strings.Join(lines, " ")
	if strings.Contains(txt, "(error") {
		return nil, fmt.Errorf("get-value: %s", txt)
	}
	// tokens: ( ( |name| value ) ... ) ; value may be #x.., #b.., true, false, (_ bvN w)
	toks := tokenize(txt)
	for i := 0; i < len(toks); i++ {
		if toks[i] == "(" && i+2 < len(toks) && toks[i+1] != "(" && toks[i+1] != ")" {
			name := strings.Trim(toks[i+1], "|")
			if _, ok := vars[name]; !ok {
				continue
			}
			v := toks[i+2]
			var val uint64
			switch {
			case v == "true":
				val = 1
			case v == "false":
				val = 0
			case strings.HasPrefix(v, "#x"):
				val, _ = strconv.ParseUint(v[2:], 16, 64)
			case strings.HasPrefix(v, "#b"):
				val, _ = strconv.ParseUint(v[2:], 2, 64)
			case v == "(" && i+4 < len(toks) && toks[i+3] == "_" && strings.HasPrefix(toks[i+4], "bv"):
				val, _ = strconv.ParseUint(toks[i+4][2:], 10, 64)
			default:
				return nil, fmt.Errorf("get-value: cannot parse value %q for %s", v, name)
			}
			m[name] = val
		}
	}
	for name := range vars {
		if _, ok := m[name]; !ok {
			return nil, fmt.Errorf("get-value: no value for %s in %q", name, txt)
		}
	}
	return m, nil
}

func tokenize(s string) []string {
	var toks []string
	i := 0
	for i < len(s) {
		c := s[i]
		switch {
		case c == ' ' || c == '\t' || c == '\n':
			i++
		case c == '(' || c == ')':
			toks = append(toks, string(c))
			i++
		case c == '|':
			j := strings.IndexByte(s[i+1:], '|')
			if j < 0 {
				toks = append(toks, s[i:])
				i = len(s)
			} else {
				toks = append(toks, s[i:i+j+2])
				i += j + 2
			}
		default:
			j := i
			for j < len(s) && s[j] != ' ' && s[j] != '(' && s[j] != ')' && s[j] != '\n' {
				j++
			}
			toks = append(toks, s[i:j])
			i = j
		}
	}
	return toks
}
