package sym

// Models: fmt bridge, errors.Is/As, sync, sync/atomic, sync.Pool, time.

import (
	"fmt"
	"go/token"
	"go/types"
	"regexp"
	"strings"

	"golang.org/x/tools/go/ssa"
)

const (
	tokADD = token.ADD
	tokLSS = token.LSS
)

// ---------------------------------------------------------------------------
// fmt bridge

// callMethodByName calls a niladic method returning one value on a dynamic (type, value) pair.
func (fr *frame) callMethod(t types.Type, v value, name string, args ...value) (value, bool) {
	ms := fr.i.prog.MethodSets.MethodSet(t)
	for k := 0; k < ms.Len(); k++ {
		sel := ms.At(k)
		if sel.Obj().Name() == name {
			f := fr.i.prog.MethodValue(sel)
			if f == nil {
				return nil, false
			}
			return fr.i.call(fr, token.NoPos, f, append([]value{v}, args...), nil), true
		}
	}
	return nil, false
}

func hasMethod(t types.Type, name string, nparams, nresults int) bool {
	ms := types.NewMethodSet(t)
	for k := 0; k < ms.Len(); k++ {
		if ms.At(k).Obj().Name() == name {
			sig := ms.At(k).Obj().Type().(*types.Signature)
			return sig.Params().Len() == nparams && sig.Results().Len() == nresults
		}
	}
	return false
}

type symPiece struct{ cells []value }

// toNative converts an interpreter value to a native Go value for formatting.
func (fr *frame) toNative(t types.Type, v value) interface{} {
	switch x := v.(type) {
	case iface:
		if x.t == nil {
			return nil
		}
		return fr.toNative(x.t, x.v)
	case *Term:
		panic(abort(abUnsupported, "formatting of a symbolic scalar"))
	}
	if t != nil {
		if hasMethod(t, "Error", 0, 1) {
			if r, ok := fr.callMethod(t, v, "Error"); ok {
				return fr.strNative(r)
			}
		}
		if hasMethod(t, "String", 0, 1) {
			if _, isPtr := v.(*value); !isPtr || v.(*value) != nil {
				if r, ok := fr.callMethod(t, v, "String"); ok {
					return fr.strNative(r)
				}
			}
		}
	}
	switch x := v.(type) {
	case bool, int, int8, int16, int32, int64, uint, uint8, uint16, uint32, uint64, uintptr, float32, float64, complex64, complex128, string:
		return x
	case symstr:
		return fr.strNative(x)
	case []value:
		if t != nil {
			if st, ok := t.Underlying().(*types.Slice); ok {
				if b, ok := st.Elem().Underlying().(*types.Basic); ok && b.Kind() == types.Uint8 {
					s, ok := goString(symstr{x})
					if !ok {
						return symPiece{x}
					}
					return []byte(s)
				}
				var out []interface{}
				for _, e := range x {
					out = append(out, fr.toNative(st.Elem(), e))
				}
				return out
			}
		}
		return toString(x)
	case *value:
		if x == nil {
			return nil
		}
		return "0xPTR"
	}
	return toString(v)
}

func (fr *frame) strNative(v value) interface{} {
	if s, ok := goString(v); ok {
		return s
	}
	return symPiece{strCells(v)}
}

const symMark = "\x00\x01SYM%d\x01\x00"

// sprintf formats with symbolic strings spliced exactly for plain %s / %v verbs.
func (fr *frame) sprintf(format string, hasFormat bool, args []value, ln bool) value {
	var nat []interface{}
	var pieces [][]value
	for _, a := range args {
		n := fr.toNative(nil, a)
		if sp, ok := n.(symPiece); ok {
			pieces = append(pieces, sp.cells)
			n = fmt.Sprintf(symMark, len(pieces)-1)
		}
		nat = append(nat, n)
	}
	var s string
	if hasFormat && len(pieces) > 0 && strings.Contains(format, "%q") {
		// %q of a symbolic string: rendered as "..." without escaping (formatting is never the
		// subject of a check; recorded as an approximation)
		format = strings.ReplaceAll(format, "%q", "\"%v\"")
		fr.i.stubsUsed["fmt: %q of a symbolic string rendered unescaped"] = true
	}
	switch {
	case hasFormat:
		s = fmt.Sprintf(format, nat...)
	case ln:
		s = fmt.Sprintln(nat...)
	default:
		s = fmt.Sprint(nat...)
	}
	if len(pieces) == 0 {
		return s
	}
	var cells []value
	for k := 0; k < len(s); {
		matched := false
		if s[k] == 0 {
			for n, p := range pieces {
				m := fmt.Sprintf(symMark, n)
				if strings.HasPrefix(s[k:], m) {
					cells = append(cells, p...)
					k += len(m)
					matched = true
					break
				}
			}
		}
		if !matched {
			cells = append(cells, s[k])
			k++
		}
	}
	if strings.Contains(s, "SYM") && strings.Contains(s, "\\x00") {
		panic(abort(abUnsupported, "symbolic string under a quoting verb"))
	}
	return mkStringCopy(cells)
}

func (fr *frame) fmtString(v value) string {
	s, ok := goString(v)
	if !ok {
		panic(abort(abUnsupported, "symbolic format string"))
	}
	return s
}

func extSprintf(fr *frame, a []value) value {
	return fr.sprintf(fr.fmtString(a[0]), true, a[1].([]value), false)
}

func extSprint(fr *frame, a []value) value {
	return fr.sprintf("", false, a[0].([]value), strings.HasSuffix(fr.fn.Name(), "ln"))
}

func extFprintf(fr *frame, a []value) value {
	s := fr.sprintf(fr.fmtString(a[1]), true, a[2].([]value), false)
	return fr.writeTo(a[0].(iface), s)
}

func extFprint(fr *frame, a []value) value {
	s := fr.sprintf("", false, a[1].([]value), strings.HasSuffix(fr.fn.Name(), "ln"))
	return fr.writeTo(a[0].(iface), s)
}

func (fr *frame) writeTo(w iface, s value) value {
	if w.t == nil {
		panic(fr.i.rtPanic("nil io.Writer"))
	}
	cells := strCells(s)
	b := make([]value, len(cells))
	copy(b, cells)
	r, ok := fr.callMethod(w.t, w.v, "Write", b)
	if !ok {
		panic(abort(abUnsupported, "Fprintf: writer without Write"))
	}
	return r
}

func extErrorf(fr *frame, a []value) value {
	format := fr.fmtString(a[0])
	args := a[1].([]value)
	msg := fr.sprintf(strings.ReplaceAll(format, "%w", "%v"), true, args, false)
	// build a *fmt.wrapError / *fmt.wrapErrors / errors.errorString using the real types
	fmtPkg := fr.i.prog.ImportedPackage("fmt")
	var wrapped []value
	if strings.Contains(format, "%w") {
		// find args that are errors, in order of %w verbs (approximation: every error-typed argument under %w)
		idx := 0
		for k := 0; k < len(format); k++ {
			if format[k] != '%' {
				continue
			}
			k++
			for k < len(format) && strings.IndexByte("+-# 0123456789.[]*", format[k]) >= 0 {
				k++
			}
			if k >= len(format) {
				break
			}
			if format[k] == '%' {
				continue
			}
			if format[k] == 'w' && idx < len(args) {
				if e, ok := args[idx].(iface); ok && e.t != nil {
					wrapped = append(wrapped, e)
				}
			}
			idx++
		}
	}
	switch len(wrapped) {
	case 0:
		t := fmtPkg.Type("wrapError") // only to locate package; plain errors use *errors.errorString
		_ = t
		errPkg := fr.i.prog.ImportedPackage("errors")
		et := errPkg.Type("errorString").Type()
		cell := value(structure{msg})
		return iface{types.NewPointer(et), &cell}
	case 1:
		wt := fmtPkg.Type("wrapError").Type()
		cell := value(structure{msg, wrapped[0]})
		return iface{types.NewPointer(wt), &cell}
	default:
		wt := fmtPkg.Type("wrapErrors").Type()
		cell := value(structure{msg, []value(wrapped)})
		return iface{types.NewPointer(wt), &cell}
	}
}

// ---------------------------------------------------------------------------
// errors.Is / errors.As

func (fr *frame) unwrapErr(e iface) []iface {
	if e.t == nil {
		return nil
	}
	ms := types.NewMethodSet(e.t)
	for k := 0; k < ms.Len(); k++ {
		if ms.At(k).Obj().Name() == "Unwrap" {
			sig := ms.At(k).Obj().Type().(*types.Signature)
			if sig.Params().Len() != 0 || sig.Results().Len() != 1 {
				return nil
			}
			r, _ := fr.callMethod(e.t, e.v, "Unwrap")
			switch x := r.(type) {
			case iface:
				if x.t == nil {
					return nil
				}
				return []iface{x}
			case []value:
				var out []iface
				for _, y := range x {
					if yi, ok := y.(iface); ok && yi.t != nil {
						out = append(out, yi)
					}
				}
				return out
			}
		}
	}
	return nil
}

func extErrorsIs(fr *frame, a []value) value {
	err, target := a[0].(iface), a[1].(iface)
	if err.t == nil || target.t == nil {
		return err.t == nil && target.t == nil
	}
	comparable := types.Comparable(target.t)
	var is func(e iface) bool
	is = func(e iface) bool {
		if comparable && sameType(e.t, target.t) {
			if boolFork(fr, fr.i.eqv(e.t, e.v, target.v)) {
				return true
			}
		}
		if hasMethod(e.t, "Is", 1, 1) {
			if r, ok := fr.callMethod(e.t, e.v, "Is", target); ok && boolFork(fr, r) {
				return true
			}
		}
		for _, u := range fr.unwrapErr(e) {
			if is(u) {
				return true
			}
		}
		return false
	}
	return is(err)
}

func extErrorsAs(fr *frame, a []value) value {
	err, target := a[0].(iface), a[1].(iface)
	if err.t == nil {
		return false
	}
	if target.t == nil {
		panic(targetPanic{fr.i.runtimeError("errors: target cannot be nil")})
	}
	pt, ok := target.t.Underlying().(*types.Pointer)
	if !ok {
		panic(targetPanic{fr.i.runtimeError("errors: target must be a non-nil pointer")})
	}
	T := pt.Elem()
	var as func(e iface) bool
	as = func(e iface) bool {
		if types.AssignableTo(e.t, T) {
			if types.IsInterface(T) {
				fr.i.store(T, target.v, e)
			} else {
				fr.i.store(T, target.v, e.v)
			}
			return true
		}
		if hasMethod(e.t, "As", 1, 1) {
			if r, ok := fr.callMethod(e.t, e.v, "As", target); ok && boolFork(fr, r) {
				return true
			}
		}
		for _, u := range fr.unwrapErr(e) {
			if as(u) {
				return true
			}
		}
		return false
	}
	return as(err)
}

// ---------------------------------------------------------------------------
// sync

type lockState struct {
	writer  bool
	readers int
}

func (i *interpreter) lockOf(p value) *lockState {
	ps := i.ps
	if ps.locks == nil {
		ps.locks = map[value]*lockState{}
	}
	l := ps.locks[p]
	if l == nil {
		l = &lockState{}
		ps.locks[p] = l
	}
	return l
}

func structField(fn *ssa.Function, recv value, name string) *value {
	t := fn.Signature.Recv().Type()
	st := deref(t).Underlying().(*types.Struct)
	for k := 0; k < st.NumFields(); k++ {
		if st.Field(k).Name() == name {
			return &(*recv.(*value)).(structure)[k]
		}
	}
	panic("structField: no field " + name)
}

func init() {
	ext := func(name string, f externalFn) { externals[name] = f }

	ext("(*sync.Mutex).Lock", func(fr *frame, a []value) value {
		i := fr.i
		l := i.lockOf(a[0])
		i.yield("Mutex.Lock")
		i.blockUntil(func() bool { return !l.writer }, "Mutex.Lock")
		l.writer = true
		return nil
	})
	ext("(*sync.Mutex).TryLock", func(fr *frame, a []value) value {
		i := fr.i
		l := i.lockOf(a[0])
		i.yield("Mutex.TryLock")
		if l.writer {
			return false
		}
		l.writer = true
		return true
	})
	ext("(*sync.Mutex).Unlock", func(fr *frame, a []value) value {
		i := fr.i
		l := i.lockOf(a[0])
		if !l.writer {
			i.recordViolation("unlock-of-unlocked", "sync: unlock of unlocked mutex")
			panic(abort(abViolation, "unlock of unlocked mutex"))
		}
		l.writer = false
		i.yield("Mutex.Unlock")
		return nil
	})
	ext("(*sync.RWMutex).Lock", func(fr *frame, a []value) value {
		i := fr.i
		l := i.lockOf(a[0])
		i.yield("RWMutex.Lock")
		i.blockUntil(func() bool { return !l.writer && l.readers == 0 }, "RWMutex.Lock")
		l.writer = true
		return nil
	})
	ext("(*sync.RWMutex).Unlock", func(fr *frame, a []value) value {
		i := fr.i
		l := i.lockOf(a[0])
		if !l.writer {
			i.recordViolation("unlock-of-unlocked", "sync: Unlock of unlocked RWMutex")
			panic(abort(abViolation, "unlock of unlocked rwmutex"))
		}
		l.writer = false
		i.yield("RWMutex.Unlock")
		return nil
	})
	ext("(*sync.RWMutex).RLock", func(fr *frame, a []value) value {
		i := fr.i
		l := i.lockOf(a[0])
		i.yield("RWMutex.RLock")
		i.blockUntil(func() bool { return !l.writer }, "RWMutex.RLock")
		l.readers++
		return nil
	})
	ext("(*sync.RWMutex).RUnlock", func(fr *frame, a []value) value {
		i := fr.i
		l := i.lockOf(a[0])
		if l.readers <= 0 {
			i.recordViolation("unlock-of-unlocked", "sync: RUnlock of unlocked RWMutex")
			panic(abort(abViolation, "runlock of unlocked rwmutex"))
		}
		l.readers--
		i.yield("RWMutex.RUnlock")
		return nil
	})
	ext("(*sync.RWMutex).TryLock", func(fr *frame, a []value) value {
		l := fr.i.lockOf(a[0])
		fr.i.yield("RWMutex.TryLock")
		if l.writer || l.readers > 0 {
			return false
		}
		l.writer = true
		return true
	})
	ext("(*sync.RWMutex).TryRLock", func(fr *frame, a []value) value {
		l := fr.i.lockOf(a[0])
		fr.i.yield("RWMutex.TryRLock")
		if l.writer {
			return false
		}
		l.readers++
		return true
	})
	// WaitGroup: counter kept in the lock table's readers field
	ext("(*sync.WaitGroup).Add", func(fr *frame, a []value) value {
		l := fr.i.lockOf(a[0])
		l.readers += int(fr.concInt(a[1], types.Typ[types.Int], "WaitGroup.Add"))
		if l.readers < 0 {
			panic(targetPanic{fr.i.runtimeError("sync: negative WaitGroup counter")})
		}
		fr.i.yield("WaitGroup.Add")
		return nil
	})
	ext("(*sync.WaitGroup).Done", func(fr *frame, a []value) value {
		l := fr.i.lockOf(a[0])
		l.readers--
		if l.readers < 0 {
			panic(targetPanic{fr.i.runtimeError("sync: negative WaitGroup counter")})
		}
		fr.i.yield("WaitGroup.Done")
		return nil
	})
	ext("(*sync.WaitGroup).Wait", func(fr *frame, a []value) value {
		l := fr.i.lockOf(a[0])
		fr.i.blockUntil(func() bool { return l.readers == 0 }, "WaitGroup.Wait")
		return nil
	})

	// sync.Pool
	ext("(*sync.Pool).Get", func(fr *frame, a []value) value {
		i := fr.i
		ps := i.ps
		key := a[0]
		items := ps.pools[key]
		n := len(items)
		k := 0
		if ps.poolChoice && i.sched.cur.id >= 0 {
			// alternatives: each stored object (most recent first) or a fresh one
			k = i.choice(n+1, "pool.Get")
		}
		if k < n {
			idx := n - 1 - k
			x := items[idx]
			ps.pools[key] = append(append([]value{}, items[:idx]...), items[idx+1:]...)
			ps.poolReuse++
			return x
		}
		nf := *structField(fr.fn, a[0], "New")
		if isNilRef(nf) {
			return iface{}
		}
		return i.call(fr, token.NoPos, nf, nil, nil)
	})
	ext("(*sync.Pool).Put", func(fr *frame, a []value) value {
		ps := fr.i.ps
		x := a[1].(iface)
		if x.t == nil {
			return nil
		}
		ps.pools[a[0]] = append(append([]value{}, ps.pools[a[0]]...), x)
		return nil
	})

	// sync/atomic functions
	for _, k := range []struct {
		suffix string
		t      types.Type
	}{{"Int32", types.Typ[types.Int32]}, {"Int64", types.Typ[types.Int64]}, {"Uint32", types.Typ[types.Uint32]},
		{"Uint64", types.Typ[types.Uint64]}, {"Uintptr", types.Typ[types.Uintptr]}, {"Pointer", types.Typ[types.UnsafePointer]}} {
		t := k.t
		ext("sync/atomic.Load"+k.suffix, func(fr *frame, a []value) value {
			fr.i.yield("atomic")
			return fr.i.load(t, a[0])
		})
		ext("sync/atomic.Store"+k.suffix, func(fr *frame, a []value) value {
			fr.i.yield("atomic")
			fr.i.store(t, a[0], a[1])
			return nil
		})
		ext("sync/atomic.Swap"+k.suffix, func(fr *frame, a []value) value {
			fr.i.yield("atomic")
			old := fr.i.load(t, a[0])
			fr.i.store(t, a[0], a[1])
			return old
		})
		ext("sync/atomic.CompareAndSwap"+k.suffix, func(fr *frame, a []value) value {
			fr.i.yield("atomic-cas")
			old := fr.i.load(t, a[0])
			if boolFork(fr, fr.i.eqv(t, old, a[1])) {
				fr.i.store(t, a[0], a[2])
				return true
			}
			return false
		})
		if k.suffix != "Pointer" {
			ext("sync/atomic.Add"+k.suffix, func(fr *frame, a []value) value {
				fr.i.yield("atomic")
				nv := fr.i.binop(token.ADD, t, fr.i.load(t, a[0]), a[1])
				fr.i.store(t, a[0], nv)
				return nv
			})
			ext("sync/atomic.And"+k.suffix, func(fr *frame, a []value) value {
				fr.i.yield("atomic")
				old := fr.i.load(t, a[0])
				fr.i.store(t, a[0], fr.i.binop(token.AND, t, old, a[1]))
				return old
			})
			ext("sync/atomic.Or"+k.suffix, func(fr *frame, a []value) value {
				fr.i.yield("atomic")
				old := fr.i.load(t, a[0])
				fr.i.store(t, a[0], fr.i.binop(token.OR, t, old, a[1]))
				return old
			})
		}
	}
	// atomic.Value {v any}
	ext("(*sync/atomic.Value).Load", func(fr *frame, a []value) value {
		fr.i.yield("atomic")
		return (*a[0].(*value)).(structure)[0]
	})
	ext("(*sync/atomic.Value).Store", func(fr *frame, a []value) value {
		fr.i.yield("atomic")
		if a[1].(iface).t == nil {
			panic(targetPanic{fr.i.runtimeError("sync/atomic: store of nil value into Value")})
		}
		fr.i.wr(&(*a[0].(*value)).(structure)[0], a[1])
		return nil
	})
	ext("(*sync/atomic.Value).Swap", func(fr *frame, a []value) value {
		fr.i.yield("atomic")
		p := &(*a[0].(*value)).(structure)[0]
		old := *p
		fr.i.wr(p, a[1])
		return old
	})
	ext("(*sync/atomic.Value).CompareAndSwap", func(fr *frame, a []value) value {
		fr.i.yield("atomic")
		p := &(*a[0].(*value)).(structure)[0]
		if boolFork(fr, fr.i.eqv(types.NewInterfaceType(nil, nil), *p, a[1])) {
			fr.i.wr(p, a[2])
			return true
		}
		return false
	})
}

// ---------------------------------------------------------------------------
// time: one virtual clock (seconds since the Unix epoch, possibly symbolic; nanoseconds fixed 0)

const unixToInternal int64 = (1969*365 + 1969/4 - 1969/100 + 1969/400) * 86400

func (i *interpreter) nowTime() value {
	sec := i.ps.clock
	ext := i.binop(token.ADD, types.Typ[types.Int64], sec, unixToInternal)
	return structure{uint64(0), ext, (*value)(nil)}
}

func init() {
	ext := func(name string, f externalFn) { externals[name] = f }
	ext("time.Now", func(fr *frame, a []value) value { return fr.i.nowTime() })
	ext("time.now", func(fr *frame, a []value) value {
		return tuple{fr.i.ps.clock, int32(0), int64(0)}
	})
	ext("time.runtimeNano", func(fr *frame, a []value) value {
		return fr.i.binop(token.MUL, types.Typ[types.Int64], fr.i.ps.clock, int64(1e9))
	})
	ext("runtime.nanotime", externals["time.runtimeNano"])
	ext("time.Sleep", func(fr *frame, a []value) value {
		// virtual time advances only through vAdvance: a sleeping background thread resumes after
		// the next advance (see runSleepers)
		if fr.i.sched.cur != nil && fr.i.sched.cur.id != 0 {
			i := fr.i
			i.sched.cur.daemon = true
			epoch := i.ps.clockEpoch
			i.sched.cur.sleeping = true
			i.blockUntil(func() bool { return i.ps.clockEpoch != epoch }, "time.Sleep")
			i.sched.cur.sleeping = false
			return nil
		}
		fr.i.yield("Sleep")
		return nil
	})
	ext("github.com/gofiber/utils/v2.Timestamp", func(fr *frame, a []value) value {
		return fr.conv(types.Typ[types.Uint32], types.Typ[types.Int64], fr.i.ps.clock)
	})
	ext("github.com/gofiber/utils/v2.StartTimeStampUpdater", func(fr *frame, a []value) value { return nil })
	timerChan := func(fr *frame, fn *ssa.Function) value {
		// build *Timer / *Ticker with a channel that never becomes ready
		rt := fn.Signature.Results().At(0).Type()
		if _, isChan := rt.Underlying().(*types.Chan); isChan {
			return &vchan{capacity: 1, timer: true}
		}
		cell := zero(deref(rt))
		st := deref(rt).Underlying().(*types.Struct)
		for k := 0; k < st.NumFields(); k++ {
			if st.Field(k).Name() == "C" {
				cell.(structure)[k] = &vchan{capacity: 1, timer: true}
			}
		}
		return &cell
	}
	for _, n := range []string{"time.NewTicker", "time.NewTimer", "time.After", "time.Tick", "time.AfterFunc"} {
		ext(n, func(fr *frame, a []value) value { return timerChan(fr, fr.fn) })
	}
	ext("(*time.Ticker).Stop", func(fr *frame, a []value) value { return nil })
	ext("(*time.Ticker).Reset", func(fr *frame, a []value) value { return nil })
	ext("(*time.Timer).Stop", func(fr *frame, a []value) value { return false })
	ext("(*time.Timer).Reset", func(fr *frame, a []value) value { return false })
}

func extSortSlice(fr *frame, a []value) value {
	x := a[0].(iface)
	cells, ok := x.v.([]value)
	if !ok {
		panic(abort(abUnsupported, "sort.Slice on non-slice"))
	}
	less := a[1]
	for i := 1; i < len(cells); i++ {
		for j := i; j > 0; j-- {
			r := fr.i.call(fr, token.NoPos, less, []value{j, j - 1}, nil)
			if !boolFork(fr, r) {
				break
			}
			vi, vj := cells[j], cells[j-1]
			fr.i.wr(&cells[j], vj)
			fr.i.wr(&cells[j-1], vi)
		}
	}
	return nil
}

func init() {
	externals["sort.Slice"] = extSortSlice
	externals["sort.SliceStable"] = extSortSlice
}

func init() {
	// optional stubs, enabled per path by the harness with vStub(name); each is listed in evidence
	externals["github.com/valyala/fasthttp.normalizePath"] = func(fr *frame, a []value) value {
		if fr.i.ps != nil && fr.i.ps.stubs["fasthttp.normalizePath=skip"] {
			fr.i.stubsUsed["fasthttp.normalizePath=skip"] = true
			// dst = append(dst[:0], src...) without normalisation
			dst := a[0].([]value)
			return fr.i.appendCells(dst[:0], a[1].([]value), nil)
		}
		return notHandled{}
	}
	externals["html.EscapeString"] = func(fr *frame, a []value) value {
		if fr.i.ps != nil && fr.i.ps.stubs["html.EscapeString=identity"] {
			fr.i.stubsUsed["html.EscapeString=identity"] = true
			return a[0]
		}
		return notHandled{}
	}
}

func init() {
	// unique.Make[T]: canonical pointer per distinct (concrete) value; Handle[T] is struct{value *T}
	externals["unique.Make"] = func(fr *frame, a []value) value {
		i := fr.i
		var T types.Type
		if ta := fr.fn.TypeArgs(); len(ta) == 1 {
			T = ta[0]
		} else {
			panic(abort(abUnsupported, "unique.Make without type argument"))
		}
		ck, ok := canonKey(T, a[0])
		if !ok {
			panic(abort(abUnsupported, "unique.Make of a symbolic value"))
		}
		key := fmt.Sprintf("%s|%T|%v", T.String(), ck, ck)
		if i.uniq == nil {
			i.uniq = map[string]*value{}
		}
		p := i.uniq[key]
		if p == nil {
			cell := copyAgg(a[0])
			p = &cell
			i.uniq[key] = p
		}
		return structure{p}
	}
}

func init() {
	// (*fiber.Bind).RespHeader(out) for out = map[string][]string: the reflection-based binder is
	// replaced by "collect the response headers" (what the binder does for this target type).
	externals["(*github.com/gofiber/fiber/v3.Bind).RespHeader"] = func(fr *frame, a []value) value {
		i := fr.i
		out, ok := a[1].(iface)
		if !ok || out.t == nil {
			return notHandled{}
		}
		m, isMap := out.v.(*omap)
		mt, isMapT := out.t.Underlying().(*types.Map)
		if !isMap || !isMapT {
			return notHandled{}
		}
		if _, isSlice := mt.Elem().Underlying().(*types.Slice); !isSlice {
			return notHandled{}
		}
		i.stubsUsed["fiber.Bind.RespHeader(map[string][]string)=collect response headers"] = true
		bind := (*a[0].(*value)).(structure)
		st := deref(fr.fn.Signature.Recv().Type()).Underlying().(*types.Struct)
		var ctx iface
		for k := 0; k < st.NumFields(); k++ {
			if st.Field(k).Name() == "ctx" {
				ctx = bind[k].(iface)
			}
		}
		resp, ok2 := fr.callMethod(ctx.t, ctx.v, "Response")
		if !ok2 {
			panic(abort(abUnsupported, "Bind.RespHeader: ctx without Response()"))
		}
		// resp is *fasthttp.Response; its Header field is a ResponseHeader
		rp := resp.(*value)
		rt := i.prog.ImportedPackage("github.com/valyala/fasthttp").Type("Response").Type().Underlying().(*types.Struct)
		var hdr *value
		for k := 0; k < rt.NumFields(); k++ {
			if rt.Field(k).Name() == "Header" {
				hdr = &(*rp).(structure)[k]
			}
		}
		cb := nativeFn(func(fr2 *frame, args []value) value {
			key := mkStringCopy(args[0].([]value))
			val := mkStringCopy(args[1].([]value))
			old, _ := m.lookup(fr2, key)
			var lst []value
			if old != nil {
				lst = old.([]value)
			}
			m.insert(fr2, key, append(append([]value{}, lst...), val))
			return nil
		})
		hpt := types.NewPointer(i.prog.ImportedPackage("github.com/valyala/fasthttp").Type("ResponseHeader").Type())
		if _, ok := fr.callMethod(hpt, hdr, "VisitAll", cb); !ok {
			panic(abort(abUnsupported, "Bind.RespHeader: VisitAll not found"))
		}
		return iface{}
	}
}

// findHarnessFunc looks up a harness-provided function by name in the target packages.
func (i *interpreter) findHarnessFunc(name string) *ssa.Function {
	for path := range i.targetPkgs {
		if p := i.prog.ImportedPackage(path); p != nil {
			if f := p.Func(name); f != nil {
				return f
			}
		}
	}
	for _, p := range i.prog.AllPackages() {
		if i.targetPkgs[p.Pkg.Path()] {
			if f := p.Func(name); f != nil {
				return f
			}
		}
	}
	return nil
}

func init() {
	// Ideal-AEAD model (C20): aes.NewCipher / cipher.NewGCM are replaced by harness-defined
	// objects (vIdealBlock / vIdealGCM); without them a call into crypto is unsupported.
	externals["crypto/aes.NewCipher"] = func(fr *frame, a []value) value {
		f := fr.i.findHarnessFunc("vIdealBlock")
		if f == nil {
			panic(abort(abUnsupported, "crypto/aes.NewCipher without an ideal-cipher model in the harness"))
		}
		fr.i.stubsUsed["crypto/aes.NewCipher + crypto/cipher.NewGCM = ideal AEAD defined in the harness"] = true
		return fr.i.call(fr, token.NoPos, f, a, nil)
	}
	externals["crypto/cipher.NewGCM"] = func(fr *frame, a []value) value {
		f := fr.i.findHarnessFunc("vIdealGCM")
		if f == nil {
			panic(abort(abUnsupported, "crypto/cipher.NewGCM without an ideal-AEAD model in the harness"))
		}
		return fr.i.call(fr, token.NoPos, f, a, nil)
	}
	// io.ReadFull(rand.Reader, buf): crypto/rand is not initialised in the engine (nil reader):
	// the buffer receives fresh symbolic bytes.
	externals["io.ReadFull"] = func(fr *frame, a []value) value {
		r := a[0].(iface)
		if r.t != nil {
			return notHandled{}
		}
		buf := a[1].([]value)
		fr.i.ps.nfresh++
		if fr.i.ps.stubs["rand=concrete"] {
			// distinct concrete bytes per call (keeps encodings of the random value concrete)
			for k := range buf {
				fr.i.wr(&buf[k], uint8(fr.i.ps.nfresh*37+k*11+5))
			}
			fr.i.stubsUsed["io.ReadFull(crypto/rand.Reader) = distinct concrete bytes per call"] = true
			return tuple{len(buf), iface{}}
		}
		for k := range buf {
			fr.i.wr(&buf[k], fr.i.newInput(fmt.Sprintf("rand%d[%d]", fr.i.ps.nfresh, k), 8))
		}
		fr.i.stubsUsed["io.ReadFull(crypto/rand.Reader) = fresh symbolic bytes"] = true
		return tuple{len(buf), iface{}}
	}
}

func init() {
	// csrf.isFromCookie compares code pointers through reflect; the value returned by
	// FromCookie(...) is a closure, whose code pointer never equals FromCookie's own.
	externals["github.com/gofiber/fiber/v3/middleware/csrf.isFromCookie"] = func(fr *frame, a []value) value {
		x, _ := a[0].(iface)
		if f, ok := x.v.(*ssa.Function); ok && f != nil && f.Name() == "FromCookie" {
			return true
		}
		fr.i.stubsUsed["csrf.isFromCookie = function identity (reflect pointer comparison)"] = true
		return false
	}
}

// nativeObj wraps a host object (e.g. a compiled regexp) inside an interpreter value.
type nativeObj struct{ v interface{} }

func init() {
	// regexp bridge: patterns and inputs must be concrete; the object lives natively
	comp := func(fr *frame, a []value) value {
		pat, ok := goString(a[0])
		if !ok {
			panic(abort(abUnsupported, "regexp with a symbolic pattern"))
		}
		re, err := regexp.Compile(pat)
		cell := value(nativeObj{re})
		if fr.fn.Name() == "MustCompile" {
			if err != nil {
				panic(targetPanic{fr.i.runtimeError("regexp: Compile: " + err.Error())})
			}
			return &cell
		}
		if err != nil {
			return tuple{(*value)(nil), iface{fr.i.runtimeErrorString, err.Error()}}
		}
		return tuple{&cell, iface{}}
	}
	externals["regexp.MustCompile"] = comp
	externals["regexp.Compile"] = comp
	match := func(fr *frame, a []value) value {
		p, _ := a[0].(*value)
		if p == nil {
			panic(abort(abUnsupported, "regexp method on an uninitialised *Regexp"))
		}
		no, ok := (*p).(nativeObj)
		if !ok {
			panic(abort(abUnsupported, "regexp method on a non-bridged *Regexp"))
		}
		var in string
		switch x := a[1].(type) {
		case []value:
			s, ok := goString(symstr{x})
			if !ok {
				panic(abort(abUnsupported, "regexp match on a symbolic input"))
			}
			in = s
		default:
			s, ok := goString(x)
			if !ok {
				panic(abort(abUnsupported, "regexp match on a symbolic input"))
			}
			in = s
		}
		return no.v.(*regexp.Regexp).MatchString(in)
	}
	externals["(*regexp.Regexp).MatchString"] = match
	externals["(*regexp.Regexp).Match"] = match
}

func init() {
	// (*fasthttp.Client).Do / DoRedirects: the network is replaced by "the reply arrives at some
	// later scheduling point and echoes the request path" (or fails, if the harness says so).
	do := func(fr *frame, a []value) value {
		i := fr.i
		if i.ps == nil || !i.ps.stubs["fasthttp.Client.Do=echo"] {
			panic(abort(abUnsupported, "fasthttp.Client.Do without a transport stub"))
		}
		i.stubsUsed["fasthttp.Client.Do = harness transport (reply arrives when a harness thread opens the gate)"] = true
		f := i.findHarnessFunc("vTransport")
		if f == nil {
			panic(abort(abUnsupported, "transport stub needs vTransport in the harness"))
		}
		return i.call(fr, token.NoPos, f, []value{a[1], a[2]}, nil)
	}
	externals["(*github.com/valyala/fasthttp.Client).Do"] = do
	externals["(*github.com/valyala/fasthttp.Client).DoRedirects"] = do
}

// ---------------------------------------------------------------------------
// session codec (C15): encoding/gob is reflection-driven and not interpretable. The two methods
// that wrap it are replaced by a table-backed codec with gob's observable behaviour: encode
// snapshots the map, decode *merges* the snapshot into the target map; unknown bytes fail.

type gobSnap struct{ ents [][2]value }

func structFieldByName(t types.Type, v structure, name string) *value {
	st := t.Underlying().(*types.Struct)
	for k := 0; k < st.NumFields(); k++ {
		if st.Field(k).Name() == name {
			return &v[k]
		}
	}
	panic("structFieldByName: no field " + name)
}

func sessionDataMap(fr *frame, recv value) *omap {
	st := deref(fr.fn.Signature.Recv().Type())
	sess := (*recv.(*value)).(structure)
	dp := *structFieldByName(st, sess, "data")
	dptr, _ := dp.(*value)
	if dptr == nil {
		return nil
	}
	dt := st.Underlying().(*types.Struct)
	var dataT types.Type
	for k := 0; k < dt.NumFields(); k++ {
		if dt.Field(k).Name() == "data" {
			dataT = deref(dt.Field(k).Type())
		}
	}
	m, _ := (*structFieldByName(dataT, (*dptr).(structure), "Data")).(*omap)
	return m
}

func init() {
	externals["(*github.com/gofiber/fiber/v3/middleware/session.Session).encodeSessionData"] = func(fr *frame, a []value) value {
		i := fr.i
		i.stubsUsed["session gob codec = table-backed codec (encode snapshots, decode merges)"] = true
		m := sessionDataMap(fr, a[0])
		snap := &gobSnap{}
		if m != nil {
			for _, e := range m.ents {
				snap.ents = append(snap.ents, [2]value{e.k, copyAgg(e.v)})
			}
		}
		tab, _ := i.ps.extra["gob"].([]*gobSnap)
		tab = append(tab, snap)
		i.ps.extra["gob"] = tab
		tok := fmt.Sprintf("GOB#%d", len(tab)-1)
		cells := make([]value, len(tok))
		for k := 0; k < len(tok); k++ {
			cells[k] = tok[k]
		}
		return tuple{cells, iface{}}
	}
	externals["(*github.com/gofiber/fiber/v3/middleware/session.Session).decodeSessionData"] = func(fr *frame, a []value) value {
		i := fr.i
		raw, ok := goString(symstr{a[1].([]value)})
		tab, _ := i.ps.extra["gob"].([]*gobSnap)
		var n int
		if !ok || !strings.HasPrefix(raw, "GOB#") {
			return iface{i.runtimeErrorString, "gob: malformed session data"}
		}
		if _, err := fmt.Sscanf(raw[4:], "%d", &n); err != nil || n < 0 || n >= len(tab) {
			return iface{i.runtimeErrorString, "gob: malformed session data"}
		}
		m := sessionDataMap(fr, a[0])
		if m == nil {
			return iface{i.runtimeErrorString, "gob: decode into nil map"}
		}
		for _, e := range tab[n].ents {
			m.insert(fr, e[0], copyAgg(e[1]))
		}
		return iface{}
	}
	externals["encoding/gob.Register"] = func(fr *frame, a []value) value { return nil }
}
