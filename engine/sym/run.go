package sym

// Loading /repo with overlay harnesses and exploring all paths of a harness entry.

import (
	"fmt"
	"go/token"
	"os"
	"path/filepath"
	"runtime"
	"sort"
	"strings"
	"sync"
	"time"

	"golang.org/x/tools/go/packages"
	"golang.org/x/tools/go/ssa"
	"golang.org/x/tools/go/ssa/ssautil"
)

type LoadConfig struct {
	RepoDir  string
	Patterns []string          // e.g. ".", "./middleware/limiter"
	Overlay  map[string][]byte // absolute path -> content
	Tags     []string
}

type Program struct {
	poolMu   sync.Mutex
	pool     map[string][]*interpreter
	Prog     *ssa.Program
	Pkgs     []*ssa.Package // the pattern packages
	ByPath   map[string]*ssa.Package
	LoadTime time.Duration
}

func Load(cfg LoadConfig) (*Program, error) {
	t0 := time.Now()
	env := append(os.Environ(), "GOFLAGS=-mod=mod", "GOPROXY=off", "GOSUMDB=off", "GOTOOLCHAIN=local", "CGO_ENABLED=0")
	pc := &packages.Config{
		Mode:    packages.LoadAllSyntax,
		Dir:     cfg.RepoDir,
		Env:     env,
		Overlay: cfg.Overlay,
		Tests:   false,
	}
	if len(cfg.Tags) > 0 {
		pc.BuildFlags = []string{"-tags=" + strings.Join(cfg.Tags, ",")}
	}
	initial, err := packages.Load(pc, cfg.Patterns...)
	if err != nil {
		return nil, err
	}
	var errs []string
	packages.Visit(initial, nil, func(p *packages.Package) {
		for _, e := range p.Errors {
			errs = append(errs, e.Error())
		}
	})
	if len(errs) > 0 {
		if len(errs) > 20 {
			errs = errs[:20]
		}
		return nil, fmt.Errorf("load errors (harness does not build against the current tree?):\n%s", strings.Join(errs, "\n"))
	}
	prog, pkgs := ssautil.AllPackages(initial, ssa.InstantiateGenerics|ssa.SanityCheckFunctions&0)
	prog.Build()
	p := &Program{Prog: prog, ByPath: map[string]*ssa.Package{}}
	for _, sp := range pkgs {
		if sp != nil {
			p.Pkgs = append(p.Pkgs, sp)
		}
	}
	for _, sp := range prog.AllPackages() {
		p.ByPath[sp.Pkg.Path()] = sp
	}
	p.LoadTime = time.Since(t0)
	return p, nil
}

type RunOpts struct {
	PkgPath    string // package of the entry function
	Entry      string
	Args       []int // integer arguments (case ids)
	Workers    int
	StepBudget int64
	MaxPaths   int
	// StopAfterViol > 0: stop exploring once that many violating paths (not tagged as known
	// findings) have been collected; the result is then marked truncated.
	StopAfterViol int
	TimeoutMs  int // per solver query
	Solver     string
	TargetPkgs []string // packages considered code under test (map-order exploration, prims)
	Known      []string // active known-finding ids
	Trace      bool
	Deadline   time.Time
	Verbose    bool
}

type PathSummary struct {
	Trace  string
	Obs    []string
	Status string
}

type RunResult struct {
	Paths        int
	PathsOK      int
	Infeasible   int
	Decisions    int
	Asserts      int
	Queries      int
	QSat         int
	QUnsat       int
	QUnknown     int
	SolverTime   time.Duration
	ModelTime    time.Duration
	Wall         time.Duration
	Steps        int64
	Violations   []Violation
	NViol        int
	NUnknownViol int  // violating paths not tagged as known findings
	StoppedOnViol bool
	Inconclusive []string
	Reach        map[string]int
	FuncsSym     map[string]bool
	FuncsRun     int
	Intercepted  map[string]int
	UninitReads  map[string]bool
	InitWarnings []string
	DecSites     map[string]int
	Samples      []PathSummary
	PoolReuse    int
	Switches     int
	Truncated    bool
}

type workQueue struct {
	mu    sync.Mutex
	cond  *sync.Cond
	items []WorkItem
	busy  int
	stop  bool
}

func (q *workQueue) push(ws []WorkItem) {
	q.mu.Lock()
	q.items = append(q.items, ws...)
	q.mu.Unlock()
	q.cond.Broadcast()
}

func (q *workQueue) pop() (WorkItem, bool) {
	q.mu.Lock()
	defer q.mu.Unlock()
	for {
		if q.stop {
			return WorkItem{}, false
		}
		if n := len(q.items); n > 0 {
			w := q.items[n-1]
			q.items = q.items[:n-1]
			q.busy++
			return w, true
		}
		if q.busy == 0 {
			q.cond.Broadcast()
			return WorkItem{}, false
		}
		q.cond.Wait()
	}
}

func (q *workQueue) done() {
	q.mu.Lock()
	q.busy--
	q.mu.Unlock()
	q.cond.Broadcast()
}

var stdInitAllow = map[string]bool{
	"errors": true, "io": true, "strings": true, "bytes": true, "strconv": true, "unicode": true, "unicode/utf8": true,
	"unicode/utf16": true, "sort": true, "slices": true, "maps": true, "math": true, "math/bits": true, "sync": true,
	"sync/atomic": true, "bufio": true, "container/heap": true, "container/list": true, "encoding/base64": true,
	"encoding/hex": true, "encoding/binary": true, "net/url": true, "path": true, "html": true, "time": true,
	"internal/bytealg": false, "cmp": true, "iter": true, "internal/itoa": true, "internal/stringslite": true,
	"net/netip": true, "net": true, "mime": true, "net/textproto": true, "internal/oserror": true, "io/fs": true,
	"context": true, "hash/crc32": false, "net/http": false, "encoding": true, "hash": true, "internal/byteorder": true,
}

func isStd(path string) bool {
	first := path
	if k := strings.IndexByte(path, '/'); k >= 0 {
		first = path[:k]
	}
	return !strings.Contains(first, ".")
}

func (p *Program) newInterp(opts RunOpts) (*interpreter, []string, error) {
	i := &interpreter{
		prog: p.Prog, globals: map[*ssa.Global]*value{}, inited: map[*ssa.Package]bool{},
		tt: NewTermTable(), extCache: map[*ssa.Function]externalFn{}, constCache: map[*ssa.Const]value{},
		targetPkgs: map[string]bool{}, stepBudget: opts.StepBudget, funcsSym: map[*ssa.Function]bool{},
		funcsRun: map[*ssa.Function]bool{}, intercepted: map[string]int{}, uninitReads: map[string]bool{},
		knownActive: map[string]bool{}, trace: opts.Trace, decSites: map[string]int{}, stubsUsed: map[string]bool{},
	}
	for _, k := range opts.Known {
		i.knownActive[k] = true
	}
	for _, t := range opts.TargetPkgs {
		i.targetPkgs[t] = true
	}
	rt := p.Prog.ImportedPackage("runtime")
	if rt == nil {
		return nil, nil, fmt.Errorf("runtime package not loaded")
	}
	i.runtimeErrorString = rt.Type("errorString").Object().Type()
	i.initAllow = func(pkg *ssa.Package) bool {
		path := pkg.Pkg.Path()
		if blockedPkgs[path] {
			return false
		}
		if isStd(path) {
			return stdInitAllow[path]
		}
		return true
	}
	s, err := NewSolver(opts.Solver, opts.TimeoutMs)
	if err != nil {
		return nil, nil, err
	}
	i.solver = s
	i.initGlobals()
	// run package initialisers once, outside the undo log, in a scratch path state
	i.ps = i.newPath(WorkItem{})
	i.resetSched()
	var warns []string
	entryPkg := p.ByPath[opts.PkgPath]
	if entryPkg == nil {
		return nil, nil, fmt.Errorf("package %s not loaded", opts.PkgPath)
	}
	func() {
		defer func() {
			if r := recover(); r != nil {
				warns = append(warns, fmt.Sprintf("init of %s incomplete: %v", opts.PkgPath, describePanic(r)))
			}
		}()
		i.stepBudget = 1 << 40
		i.callSSA(nil, token.NoPos, entryPkg.Func("init"), nil, nil, nil)
	}()
	i.stepBudget = opts.StepBudget
	warns = append(warns, i.initWarn...)
	i.killThreads()
	i.ps = nil
	return i, warns, nil
}

func describePanic(r interface{}) string {
	switch x := r.(type) {
	case pathAbort:
		return x.String()
	case targetPanic:
		return "target panic: " + toString(x.v)
	case engineBug:
		return fmt.Sprintf("engine bug in %s: %v\n%s", x.where, x.p, x.stack)
	}
	return fmt.Sprint(r)
}

// Explore runs the entry function over all feasible paths.
func (p *Program) Explore(opts RunOpts) (*RunResult, error) {
	if opts.Workers <= 0 {
		opts.Workers = runtime.NumCPU()
	}
	if opts.StepBudget <= 0 {
		opts.StepBudget = 5_000_000
	}
	if opts.TimeoutMs <= 0 {
		opts.TimeoutMs = 10000
	}
	if opts.Solver == "" {
		opts.Solver = "z3-new"
	}
	if opts.MaxPaths <= 0 {
		opts.MaxPaths = 200000
	}
	t0 := time.Now()
	res := &RunResult{Reach: map[string]int{}, FuncsSym: map[string]bool{}, Intercepted: map[string]int{}, UninitReads: map[string]bool{}, DecSites: map[string]int{}}
	entryPkg := p.ByPath[opts.PkgPath]
	if entryPkg == nil {
		return nil, fmt.Errorf("package %s not loaded", opts.PkgPath)
	}
	entry := entryPkg.Func(opts.Entry)
	if entry == nil {
		return nil, fmt.Errorf("entry %s.%s not found", opts.PkgPath, opts.Entry)
	}
	q := &workQueue{}
	q.cond = sync.NewCond(&q.mu)
	q.items = []WorkItem{{}}
	var mu sync.Mutex
	var wg sync.WaitGroup
	var firstErr error
	nw := opts.Workers
	for w := 0; w < nw; w++ {
		wg.Add(1)
		go func(wid int) {
			defer wg.Done()
			// lazily create the interpreter when the first item arrives
			var i *interpreter
			for {
				item, ok := q.pop()
				if !ok {
					break
				}
				if i == nil {
					var warns []string
					var err error
					i, warns, err = p.acquireInterp(opts)
					if err != nil {
						mu.Lock()
						if firstErr == nil {
							firstErr = err
						}
						mu.Unlock()
						q.done()
						q.mu.Lock()
						q.stop = true
						q.mu.Unlock()
						q.cond.Broadcast()
						return
					}
					if wid == 0 || len(warns) > 0 {
						mu.Lock()
						for _, wn := range warns {
							dup := false
							for _, x := range res.InitWarnings {
								if x == wn {
									dup = true
								}
							}
							if !dup {
								res.InitWarnings = append(res.InitWarnings, wn)
							}
						}
						mu.Unlock()
					}
				}
				ps, status := i.runPath(entry, opts.Args, item)
				mu.Lock()
				res.Paths++
				switch status {
				case "ok", "done":
					res.PathsOK++
				case "infeasible":
					res.Infeasible++
				case "violation":
				default:
					res.Inconclusive = append(res.Inconclusive, status)
				}
				res.Decisions += ps.nDec
				res.Asserts += ps.asserts
				res.Steps += ps.steps
				res.PoolReuse += ps.poolReuse
				res.Switches += i.sched.switches
				for _, in := range ps.incon {
					res.Inconclusive = append(res.Inconclusive, in)
				}
				if status != "infeasible" {
					for k := range ps.reach {
						res.Reach[k]++
					}
				}
				for _, v := range ps.viols {
					res.NViol++
					if v.Known == "" {
						res.NUnknownViol++
					}
					// violations inside a known finding are abundant: never let them crowd out new ones
					if v.Known == "" && res.NUnknownViol <= 400 {
						res.Violations = append(res.Violations, v)
					} else if v.Known != "" && res.NViol-res.NUnknownViol <= 200 {
						res.Violations = append(res.Violations, v)
					}
				}
				if len(res.Samples) < 8 && status != "infeasible" {
					res.Samples = append(res.Samples, PathSummary{Trace: decisionsString(ps.trace), Obs: ps.obs, Status: status})
				}
				over := res.Paths >= opts.MaxPaths || (!opts.Deadline.IsZero() && time.Now().After(opts.Deadline))
				if opts.StopAfterViol > 0 && res.NUnknownViol >= opts.StopAfterViol {
					over = true
					res.StoppedOnViol = true
				}
				if over && !res.Truncated {
					res.Truncated = true
				}
				mu.Unlock()
				if over {
					q.mu.Lock()
					q.stop = true
					q.mu.Unlock()
					q.cond.Broadcast()
				} else {
					q.push(ps.pending)
				}
				q.done()
			}
			if i != nil {
				mu.Lock()
				res.Queries += i.solver.Queries - i.base.q
				res.QSat += i.solver.NSat - i.base.sat
				res.QUnsat += i.solver.NUnsat - i.base.unsat
				res.QUnknown += i.solver.NUnk - i.base.unk
				res.SolverTime += i.solver.Time - i.base.t
				res.ModelTime += i.solver.ModelTime - i.base.mt
				for f := range i.funcsSym {
					res.FuncsSym[f.String()] = true
				}
				if len(i.funcsRun) > res.FuncsRun {
					res.FuncsRun = len(i.funcsRun)
				}
				for k, v := range i.intercepted {
					res.Intercepted[k] += v
				}
				for k, v := range i.decSites {
					res.DecSites[k] += v
				}
				for k := range i.stubsUsed {
					res.Intercepted["stub:"+k]++
				}
				for k := range i.uninitReads {
					res.UninitReads[k] = true
				}
				mu.Unlock()
				p.releaseInterp(opts, i)
			}
		}(w)
	}
	wg.Wait()
	res.Wall = time.Since(t0)
	if firstErr != nil {
		return res, firstErr
	}
	if res.Truncated && res.StoppedOnViol {
		res.Inconclusive = append(res.Inconclusive, fmt.Sprintf("exploration stopped after %d paths: %d violating paths collected", res.Paths, res.NUnknownViol))
	} else if res.Truncated {
		res.Inconclusive = append(res.Inconclusive, fmt.Sprintf("exploration truncated after %d paths (budget/deadline)", res.Paths))
	}
	sort.Strings(res.Inconclusive)
	return res, nil
}

// runPath executes one path and rolls all memory effects back.
func (i *interpreter) runPath(entry *ssa.Function, args []int, item WorkItem) (ps *pathState, status string) {
	ps = i.newPath(item)
	i.ps = ps
	i.resetSched()
	i.undo = i.undo[:0]
	i.undoOn = true
	i.solver.Push()
	status = "ok"
	func() {
		defer func() {
			r := recover()
			if r == nil {
				return
			}
			switch x := r.(type) {
			case pathAbort:
				switch x.kind {
				case abInfeasible:
					status = "infeasible"
				case abDone:
					status = "done"
				case abViolation:
					status = "violation"
				default:
					status = "inconclusive: " + x.String()
				}
			case targetPanic:
				// uncaught panic reaching the harness is a violation
				i.recordViolation("uncaught-panic", "panic: "+toString(x.v))
				status = "violation"
			case engineBug:
				status = fmt.Sprintf("inconclusive: engine bug in %s: %v | %s", x.where, x.p, firstLines(x.stack, 4))
			default:
				buf := make([]byte, 1<<13)
				n := runtime.Stack(buf, false)
				status = fmt.Sprintf("inconclusive: engine panic: %v | %s", r, firstLines(string(buf[:n]), 5))
			}
		}()
		var av []value
		for _, a := range args {
			av = append(av, a)
		}
		i.callSSA(nil, token.NoPos, entry, av, nil, nil)
		if i.ps.pos < len(i.ps.prefix) {
			status = fmt.Sprintf("inconclusive: replay divergence: path ended with %d unused decisions", len(i.ps.prefix)-i.ps.pos)
		}
	}()
	if len(ps.viols) > 0 && status == "ok" {
		status = "violation"
	}
	i.killThreads()
	i.undoOn = false
	i.rollback(0)
	for i.solver.Depth() > 0 {
		i.solver.Pop()
	}
	i.ps = nil
	return ps, status
}

func firstLines(s string, n int) string {
	lines := strings.Split(s, "\n")
	var keep []string
	for _, l := range lines {
		if strings.Contains(l, "gosym/sym") || strings.Contains(l, "panic") {
			keep = append(keep, strings.TrimSpace(l))
		}
		if len(keep) >= n {
			break
		}
	}
	return strings.Join(keep, " ; ")
}

// OverlayFromDir maps every file in dir (harness sources) to repoDir/<rel>/<file>.
func OverlayFromDir(dir, repoDir, rel string) (map[string][]byte, error) {
	out := map[string][]byte{}
	ents, err := os.ReadDir(dir)
	if err != nil {
		return nil, err
	}
	for _, e := range ents {
		if e.IsDir() || !strings.HasSuffix(e.Name(), ".go") || strings.HasSuffix(e.Name(), "_test.go") {
			continue
		}
		b, err := os.ReadFile(filepath.Join(dir, e.Name()))
		if err != nil {
			return nil, err
		}
		out[filepath.Join(repoDir, rel, e.Name())] = b
	}
	return out, nil
}

// HarnessOverlay builds the overlay for one package: the harness files of hdir plus the
// primitives template instantiated for the package name found in the harness files.
func HarnessOverlay(hdir, repoDir, rel string) (map[string][]byte, error) {
	ov, err := OverlayFromDir(hdir, repoDir, rel)
	if err != nil {
		return nil, err
	}
	pkgName := ""
	for _, b := range ov {
		for _, line := range strings.Split(string(b), "\n") {
			if strings.HasPrefix(line, "package ") {
				pkgName = strings.TrimSpace(strings.TrimPrefix(line, "package "))
				break
			}
		}
		if pkgName != "" {
			break
		}
	}
	if pkgName == "" {
		return nil, fmt.Errorf("no harness files in %s", hdir)
	}
	tmpl, err := os.ReadFile(filepath.Join(filepath.Dir(hdir), "prims", "zz_verif_prims.go.tmpl"))
	if err != nil {
		return nil, err
	}
	ov[filepath.Join(repoDir, rel, "zz_verif_prims.go")] = []byte(strings.Replace(string(tmpl), "package PKGNAME", "package "+pkgName, 1))
	return ov, nil
}

type solverBase struct {
	q, sat, unsat, unk int
	t, mt              time.Duration
}

func poolKey(opts RunOpts) string {
	return opts.PkgPath + "|" + strings.Join(opts.TargetPkgs, ",") + "|" + strings.Join(opts.Known, ",") + "|" + opts.Solver + fmt.Sprint(opts.TimeoutMs, opts.Trace)
}

func (p *Program) acquireInterp(opts RunOpts) (*interpreter, []string, error) {
	p.poolMu.Lock()
	if p.pool == nil {
		p.pool = map[string][]*interpreter{}
	}
	k := poolKey(opts)
	if l := p.pool[k]; len(l) > 0 {
		i := l[len(l)-1]
		p.pool[k] = l[:len(l)-1]
		p.poolMu.Unlock()
		i.stepBudget = opts.StepBudget
		i.base = solverBase{i.solver.Queries, i.solver.NSat, i.solver.NUnsat, i.solver.NUnk, i.solver.Time, i.solver.ModelTime}
		i.funcsSym = map[*ssa.Function]bool{}
		i.intercepted = map[string]int{}
		i.decSites = map[string]int{}
		i.stubsUsed = map[string]bool{}
		return i, nil, nil
	}
	p.poolMu.Unlock()
	return p.newInterp(opts)
}

func (p *Program) releaseInterp(opts RunOpts, i *interpreter) {
	// a term table that grew large is dropped together with its interpreter
	if i.tt.next > 2_000_000 {
		i.solver.Close()
		return
	}
	p.poolMu.Lock()
	k := poolKey(opts)
	p.pool[k] = append(p.pool[k], i)
	p.poolMu.Unlock()
}

// Close terminates all pooled solver processes.
func (p *Program) Close() {
	p.poolMu.Lock()
	defer p.poolMu.Unlock()
	for _, l := range p.pool {
		for _, i := range l {
			i.solver.Close()
		}
	}
	p.pool = nil
}
