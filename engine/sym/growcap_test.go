package sym

import "testing"

type p3 struct {
	a, b *int
	c    int
}

// growCap must agree with the runtime for the element shapes the target code uses.
func TestGrowCapMatchesRuntime(t *testing.T) {
	for oldLen := 0; oldLen < 70; oldLen++ {
		for add := 1; add < 40; add++ {
			b := make([]byte, oldLen)
			if got, want := growCap(oldLen, oldLen+add, 1, true), cap(append(b, make([]byte, add)...)); got != want {
				t.Fatalf("byte old=%d add=%d: got %d want %d", oldLen, add, got, want)
			}
			f := make([]func(), oldLen)
			if got, want := growCap(oldLen, oldLen+add, 8, false), cap(append(f, make([]func(), add)...)); got != want {
				t.Fatalf("func old=%d add=%d: got %d want %d", oldLen, add, got, want)
			}
			s := make([]string, oldLen)
			if got, want := growCap(oldLen, oldLen+add, 16, false), cap(append(s, make([]string, add)...)); got != want {
				t.Fatalf("string old=%d add=%d: got %d want %d", oldLen, add, got, want)
			}
			q := make([]p3, oldLen)
			if got, want := growCap(oldLen, oldLen+add, 24, false), cap(append(q, make([]p3, add)...)); got != want {
				t.Fatalf("p3 old=%d add=%d: got %d want %d", oldLen, add, got, want)
			}
			u := make([]uint32, oldLen)
			if got, want := growCap(oldLen, oldLen+add, 4, true), cap(append(u, make([]uint32, add)...)); got != want {
				t.Fatalf("u32 old=%d add=%d: got %d want %d", oldLen, add, got, want)
			}
		}
	}
	for _, oldLen := range []int{200, 256, 300, 1000, 5000} {
		for _, add := range []int{1, 100, 3000} {
			b := make([]byte, oldLen)
			if got, want := growCap(oldLen, oldLen+add, 1, true), cap(append(b, make([]byte, add)...)); got != want {
				t.Fatalf("byte old=%d add=%d: got %d want %d", oldLen, add, got, want)
			}
			s := make([]string, oldLen)
			if got, want := growCap(oldLen, oldLen+add, 16, false), cap(append(s, make([]string, add)...)); got != want {
				t.Fatalf("string old=%d add=%d: got %d want %d", oldLen, add, got, want)
			}
		}
	}
}
