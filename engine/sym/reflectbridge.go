package sym

// A minimal bridge for package reflect: only type inspection (TypeOf/ValueOf, Kind, Elem, Key, Type,
// Interface). Everything else in reflect stays blocked, so code that builds or sets values through
// reflection (schema decoders, encoding/*) is still reported as unsupported.

import (
	"go/types"
	"reflect"

	"golang.org/x/tools/go/ssa"
)

type reflType struct{ t types.Type }

type reflValue struct {
	t types.Type
	v value
}

func reflKind(t types.Type) uint {
	switch u := t.Underlying().(type) {
	case *types.Basic:
		switch u.Kind() {
		case types.Bool:
			return uint(reflect.Bool)
		case types.Int:
			return uint(reflect.Int)
		case types.Int8:
			return uint(reflect.Int8)
		case types.Int16:
			return uint(reflect.Int16)
		case types.Int32:
			return uint(reflect.Int32)
		case types.Int64:
			return uint(reflect.Int64)
		case types.Uint:
			return uint(reflect.Uint)
		case types.Uint8:
			return uint(reflect.Uint8)
		case types.Uint16:
			return uint(reflect.Uint16)
		case types.Uint32:
			return uint(reflect.Uint32)
		case types.Uint64:
			return uint(reflect.Uint64)
		case types.Uintptr:
			return uint(reflect.Uintptr)
		case types.Float32:
			return uint(reflect.Float32)
		case types.Float64:
			return uint(reflect.Float64)
		case types.Complex64:
			return uint(reflect.Complex64)
		case types.Complex128:
			return uint(reflect.Complex128)
		case types.String:
			return uint(reflect.String)
		case types.UnsafePointer:
			return uint(reflect.UnsafePointer)
		}
	case *types.Array:
		return uint(reflect.Array)
	case *types.Chan:
		return uint(reflect.Chan)
	case *types.Signature:
		return uint(reflect.Func)
	case *types.Interface:
		return uint(reflect.Interface)
	case *types.Map:
		return uint(reflect.Map)
	case *types.Pointer:
		return uint(reflect.Ptr)
	case *types.Slice:
		return uint(reflect.Slice)
	case *types.Struct:
		return uint(reflect.Struct)
	}
	return uint(reflect.Invalid)
}

func (i *interpreter) reflTypeIface(t types.Type) value {
	if t == nil {
		return iface{}
	}
	return iface{i.reflRtype(), nativeObj{reflType{t}}}
}

// reflRtype is the dynamic type recorded in bridged reflect.Type interface values.
func (i *interpreter) reflRtype() types.Type {
	if i.reflRT != nil {
		return i.reflRT
	}
	var t types.Type = types.Typ[types.UnsafePointer]
	if p := i.prog.ImportedPackage("reflect"); p != nil {
		if m := p.Members["rtype"]; m != nil {
			t = types.NewPointer(m.Type())
		}
	}
	i.reflRT = t
	return t
}

func reflElem(t types.Type) types.Type {
	switch u := t.Underlying().(type) {
	case *types.Pointer:
		return u.Elem()
	case *types.Map:
		return u.Elem()
	case *types.Slice:
		return u.Elem()
	case *types.Array:
		return u.Elem()
	case *types.Chan:
		return u.Elem()
	}
	panic(abort(abUnsupported, "reflect: Elem of "+t.String()))
}

// reflTypeMethod implements the bridged subset of the reflect.Type interface.
func (i *interpreter) reflTypeMethod(rt reflType, name string) nativeFn {
	return func(fr *frame, a []value) value {
		switch name {
		case "Kind":
			return reflKind(rt.t)
		case "Elem":
			return i.reflTypeIface(reflElem(rt.t))
		case "Key":
			if m, ok := rt.t.Underlying().(*types.Map); ok {
				return i.reflTypeIface(m.Key())
			}
		case "String":
			return rt.t.String()
		case "NumField":
			return reflStructOf(rt.t).NumFields()
		case "Field":
			k, ok := a[0].(int)
			if !ok || k < 0 || k >= reflStructOf(rt.t).NumFields() {
				panic(abort(abUnsupported, "reflect.Type.Field with a symbolic or out-of-range index"))
			}
			return i.reflStructField(rt.t, k)
		}
		panic(abort(abUnsupported, "reflect.Type."+name+" is outside the bridged subset"))
	}
}

func reflVal(v value) reflValue {
	if no, ok := v.(nativeObj); ok {
		if rv, ok := no.v.(reflValue); ok {
			return rv
		}
	}
	panic(abort(abUnsupported, "reflect.Value that was not produced by the bridge"))
}

func init() {
	externals["reflect.TypeOf"] = func(fr *frame, a []value) value {
		x := a[0].(iface)
		return fr.i.reflTypeIface(x.t)
	}
	externals["reflect.ValueOf"] = func(fr *frame, a []value) value {
		x := a[0].(iface)
		return nativeObj{reflValue{x.t, x.v}}
	}
	externals["(reflect.Value).Kind"] = func(fr *frame, a []value) value {
		rv := reflVal(a[0])
		if rv.t == nil {
			return uint(reflect.Invalid)
		}
		return reflKind(rv.t)
	}
	externals["(reflect.Value).Type"] = func(fr *frame, a []value) value {
		return fr.i.reflTypeIface(reflVal(a[0]).t)
	}
	externals["(reflect.Value).Interface"] = func(fr *frame, a []value) value {
		rv := reflVal(a[0])
		return iface{rv.t, rv.v}
	}
	externals["(reflect.Value).Elem"] = func(fr *frame, a []value) value {
		rv := reflVal(a[0])
		switch u := rv.t.Underlying().(type) {
		case *types.Pointer:
			return nativeObj{reflValue{u.Elem(), fr.i.load(u.Elem(), rv.v)}}
		case *types.Interface:
			x := rv.v.(iface)
			return nativeObj{reflValue{x.t, x.v}}
		}
		panic(abort(abUnsupported, "reflect.Value.Elem of "+rv.t.String()))
	}
	externals["(reflect.Value).IsNil"] = func(fr *frame, a []value) value {
		rv := reflVal(a[0])
		switch x := rv.v.(type) {
		case *value:
			return x == nil
		case iface:
			return x.t == nil
		case *omap:
			return x == nil
		}
		panic(abort(abUnsupported, "reflect.Value.IsNil of "+rv.t.String()))
	}
}

var _ = (*ssa.Function)(nil)

// ---- read-only value inspection (enough for code that walks a struct and formats its fields)

func reflStructOf(t types.Type) *types.Struct {
	st, ok := t.Underlying().(*types.Struct)
	if !ok {
		panic(abort(abUnsupported, "reflect: not a struct: "+t.String()))
	}
	return st
}

// reflStructField builds the reflect.StructField value for field k of struct type t.
func (i *interpreter) reflStructField(t types.Type, k int) value {
	st := reflStructOf(t)
	f := st.Field(k)
	pkgPath := ""
	if !f.Exported() && f.Pkg() != nil {
		pkgPath = f.Pkg().Path()
	}
	// field order of reflect.StructField: Name, PkgPath, Type, Tag, Offset, Index, Anonymous
	return structure{f.Name(), pkgPath, i.reflTypeIface(f.Type()), st.Tag(k), uintptr(0), []value{k}, f.Embedded()}
}

func init() {
	externals["(reflect.StructField).IsExported"] = func(fr *frame, a []value) value {
		sf := a[0].(structure)
		s, ok := goString(sf[1])
		if !ok {
			panic(abort(abUnsupported, "reflect.StructField with a symbolic PkgPath"))
		}
		return s == ""
	}
	tagGet := func(fr *frame, a []value) value {
		tag, ok := goString(a[0])
		key, ok2 := goString(a[1])
		if !ok || !ok2 {
			panic(abort(abUnsupported, "reflect.StructTag with symbolic text"))
		}
		v, found := reflect.StructTag(tag).Lookup(key)
		if fr.fn.Name() == "Lookup" {
			return tuple{v, found}
		}
		return v
	}
	externals["(reflect.StructTag).Get"] = tagGet
	externals["(reflect.StructTag).Lookup"] = tagGet
	externals["(reflect.Value).NumField"] = func(fr *frame, a []value) value {
		return reflStructOf(reflVal(a[0]).t).NumFields()
	}
	externals["(reflect.Value).Field"] = func(fr *frame, a []value) value {
		rv := reflVal(a[0])
		st := reflStructOf(rv.t)
		k, ok := a[1].(int)
		if !ok || k < 0 || k >= st.NumFields() {
			panic(abort(abUnsupported, "reflect.Value.Field with a symbolic or out-of-range index"))
		}
		return nativeObj{reflValue{st.Field(k).Type(), rv.v.(structure)[k]}}
	}
	scalar := func(name string, want func(*types.Basic) bool, conv func(fr *frame, t types.Type, v value) value) {
		externals["(reflect.Value)."+name] = func(fr *frame, a []value) value {
			rv := reflVal(a[0])
			b, ok := rv.t.Underlying().(*types.Basic)
			if !ok || !want(b) {
				panic(abort(abUnsupported, "reflect.Value."+name+" of "+rv.t.String()))
			}
			return conv(fr, rv.t, rv.v)
		}
	}
	scalar("Int", func(b *types.Basic) bool { return b.Info()&types.IsInteger != 0 && b.Info()&types.IsUnsigned == 0 },
		func(fr *frame, t types.Type, v value) value { return fr.conv(types.Typ[types.Int64], t, v) })
	scalar("Uint", func(b *types.Basic) bool { return b.Info()&types.IsUnsigned != 0 },
		func(fr *frame, t types.Type, v value) value { return fr.conv(types.Typ[types.Uint64], t, v) })
	scalar("Float", func(b *types.Basic) bool { return b.Info()&types.IsFloat != 0 },
		func(fr *frame, t types.Type, v value) value { return fr.conv(types.Typ[types.Float64], t, v) })
	scalar("Bool", func(b *types.Basic) bool { return b.Kind() == types.Bool },
		func(fr *frame, t types.Type, v value) value { return v })
	externals["(reflect.Value).String"] = func(fr *frame, a []value) value {
		rv := reflVal(a[0])
		if b, ok := rv.t.Underlying().(*types.Basic); ok && b.Kind() == types.String {
			return rv.v
		}
		panic(abort(abUnsupported, "reflect.Value.String of "+rv.t.String()))
	}
	externals["(reflect.Value).Len"] = func(fr *frame, a []value) value {
		rv := reflVal(a[0])
		switch x := rv.v.(type) {
		case []value:
			return len(x)
		case array:
			return len(x)
		case string:
			return len(x)
		case symstr:
			return len(x.c)
		}
		panic(abort(abUnsupported, "reflect.Value.Len of "+rv.t.String()))
	}
	externals["(reflect.Value).Index"] = func(fr *frame, a []value) value {
		rv := reflVal(a[0])
		k, ok := a[1].(int)
		if !ok {
			panic(abort(abUnsupported, "reflect.Value.Index with a symbolic index"))
		}
		et := reflElem(rv.t)
		switch x := rv.v.(type) {
		case []value:
			if k < 0 || k >= len(x) {
				panic(targetPanic{fr.i.runtimeError("reflect: slice index out of range")})
			}
			return nativeObj{reflValue{et, fr.i.loadCell(et, &x[k])}}
		case array:
			if k < 0 || k >= len(x) {
				panic(targetPanic{fr.i.runtimeError("reflect: array index out of range")})
			}
			return nativeObj{reflValue{et, x[k]}}
		}
		panic(abort(abUnsupported, "reflect.Value.Index of "+rv.t.String()))
	}
}
