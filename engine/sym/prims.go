package sym

// Harness primitives (declared with native bodies in zz_verif_prims.go, intercepted here).

import (
	"fmt"
	"go/token"
	"go/types"
)

var prims = map[string]externalFn{}

func (fr *frame) primName(v value) string {
	s, ok := goString(v)
	if !ok {
		panic(abort(abUnsupported, "harness primitive with symbolic name"))
	}
	return s
}

func (i *interpreter) recordViolation(tag, msg string) {
	ps := i.ps
	known := ""
	for _, k := range ps.known {
		if k.cond == nil {
			known = k.id
		}
	}
	m := Model{}
	for k, v := range ps.model {
		m[k] = v
	}
	ps.viols = append(ps.viols, Violation{Tag: tag, Msg: msg, Known: known, Model: m, Inputs: append([]Input{}, ps.inputs...),
		Trace: append([]Decision{}, ps.trace...), Obs: append([]string{}, ps.obs...), Named: copyNamed(ps.named), Sched: append([]int{}, ps.yieldLog...)})
}

func copyNamed(m map[string]uint64) map[string]uint64 {
	o := map[string]uint64{}
	for k, v := range m {
		o[k] = v
	}
	return o
}

func (i *interpreter) symBytes(name string, n int) []value {
	cells := make([]value, n)
	for k := 0; k < n; k++ {
		cells[k] = i.newInput(fmt.Sprintf("%s[%d]", name, k), 8)
	}
	return cells
}

func init() {
	p := func(name string, f externalFn) { prims[name] = f }

	p("vByte", func(fr *frame, a []value) value { return fr.i.newInput(fr.primName(a[0]), 8) })
	p("vBool", func(fr *frame, a []value) value { return fr.i.newInput(fr.primName(a[0]), 0) })
	p("vU32", func(fr *frame, a []value) value { return fr.i.newInput(fr.primName(a[0]), 32) })
	p("vU64", func(fr *frame, a []value) value { return fr.i.newInput(fr.primName(a[0]), 64) })
	p("vF64", func(fr *frame, a []value) value {
		// a non-negative, non-NaN float64 (finite or +Inf): bits <= 0x7ff0000000000000
		i := fr.i
		x := i.newInput(fr.primName(a[0]), 64)
		i.assume(i.tt.Bin(OpULe, x, i.tt.Const(64, 0x7ff0000000000000)))
		return symf64{x}
	})
	p("vInt", func(fr *frame, a []value) value {
		i := fr.i
		x := i.newInput(fr.primName(a[0]), 64)
		lo := i.toTerm(a[1])
		hi := i.toTerm(a[2])
		i.assume(i.tt.And(i.tt.Bin(OpSLe, lo, x), i.tt.Bin(OpSLe, x, hi)))
		return x
	})
	p("vString", func(fr *frame, a []value) value {
		n := int(fr.concInt(a[1], types.Typ[types.Int], "vString len"))
		if n == 0 {
			return ""
		}
		return symstr{fr.i.symBytes(fr.primName(a[0]), n)}
	})
	p("vBytes", func(fr *frame, a []value) value {
		n := int(fr.concInt(a[1], types.Typ[types.Int], "vBytes len"))
		return fr.i.symBytes(fr.primName(a[0]), n)
	})
	choice := func(fr *frame, a []value, lo, n int) value {
		name := fr.primName(a[0])
		k := 0
		if n > 1 {
			k = fr.i.choice(n, name)
		}
		fr.i.ps.named[name] = uint64(lo + k)
		return lo + k
	}
	p("vLen", func(fr *frame, a []value) value {
		lo := int(asInt64(a[1]))
		hi := int(asInt64(a[2]))
		return choice(fr, a, lo, hi-lo+1)
	})
	p("vChoice", func(fr *frame, a []value) value {
		return choice(fr, a, 0, int(asInt64(a[1])))
	})
	p("vAssume", func(fr *frame, a []value) value {
		fr.i.assume(fr.i.boolTerm(a[0]))
		return nil
	})
	p("vAssert", func(fr *frame, a []value) value {
		fr.i.checkAssert(a[0], fr.primName(a[1]))
		return nil
	})
	p("vReach", func(fr *frame, a []value) value {
		fr.i.ps.reach[fr.primName(a[0])] = true
		return nil
	})
	p("vObserve", func(fr *frame, a []value) value {
		fr.i.ps.obs = append(fr.i.ps.obs, fr.primName(a[0])+"="+toString(a[1]))
		return nil
	})
	p("vKnown", func(fr *frame, a []value) value {
		id := fr.primName(a[0])
		i := fr.i
		if !i.knownActive[id] {
			return nil
		}
		var c *Term
		switch x := a[1].(type) {
		case bool:
			if !x {
				// predicate false on this path: remove if present
				i.dropKnown(id)
				return nil
			}
		case *Term:
			c = x
		}
		i.dropKnown(id)
		i.ps.known = append(i.ps.known, knownPred{id, c})
		return nil
	})
	p("vAdvance", func(fr *frame, a []value) value {
		i := fr.i
		i.ps.clock = i.binop(token.ADD, types.Typ[types.Int64], i.ps.clock, fr.conv(types.Typ[types.Int64], types.Typ[types.Int], a[0]))
		i.ps.clockEpoch++
		i.runSleepers()
		return nil
	})
	p("vAdvanceReal", prims["vAdvance"])
	p("vNow", func(fr *frame, a []value) value { return fr.i.ps.clock })
	p("vPermuteMaps", func(fr *frame, a []value) value { fr.i.ps.permute = a[0].(bool); return nil })
	p("vPoolChoice", func(fr *frame, a []value) value { fr.i.ps.poolChoice = a[0].(bool); return nil })
	p("vSched", func(fr *frame, a []value) value { fr.i.sched.enabled = a[0].(bool); return nil })
	p("vPreemptBound", func(fr *frame, a []value) value {
		fr.i.sched.preemptBound = int(asInt64(a[0]))
		return nil
	})
	p("vYield", func(fr *frame, a []value) value {
		i := fr.i
		i.yield("h:" + fr.primName(a[0]))
		// the order in which threads pass harness-visible yield points (for native replay)
		i.ps.yieldLog = append(i.ps.yieldLog, i.sched.cur.id)
		return nil
	})
	p("vSpawn", func(fr *frame, a []value) value {
		fr.i.spawn(fr, nil, a[0], nil)
		return nil
	})
	p("vWaitUntil", func(fr *frame, a []value) value {
		i := fr.i
		cond := a[0]
		i.blockUntil(func() bool {
			r := i.call(fr, token.NoPos, cond, nil, nil)
			b, ok := r.(bool)
			if !ok {
				panic(abort(abUnsupported, "vWaitUntil on a symbolic condition"))
			}
			return b
		}, "vWaitUntil")
		return nil
	})
	p("vThreadID", func(fr *frame, a []value) value { return fr.i.sched.cur.id })
	p("vJoin", func(fr *frame, a []value) value {
		i := fr.i
		i.blockUntil(func() bool {
			for _, t := range i.sched.threads[1:] {
				if !t.done && !t.daemon && !t.background {
					return false
				}
			}
			return true
		}, "vJoin")
		return nil
	})
	p("vAllocBudget", func(fr *frame, a []value) value {
		fr.i.ps.allocB = asInt64(a[0])
		fr.i.ps.allocU = 0
		return nil
	})
	p("vHavocBytes", func(fr *frame, a []value) value {
		// overwrite the whole backing array of b with fresh symbolic bytes
		b := a[1].([]value)
		b = b[:cap(b)]
		name := fr.primName(a[0])
		for k := range b {
			fr.i.wr(&b[k], fr.i.newInput(fmt.Sprintf("%s[%d]", name, k), 8))
		}
		return nil
	})
	p("vOr", func(fr *frame, a []value) value { return fr.i.orv(a[0], a[1]) })
	p("vAnd", func(fr *frame, a []value) value { return fr.i.andv(a[0], a[1]) })
	p("vB2I", func(fr *frame, a []value) value {
		switch b := a[0].(type) {
		case bool:
			if b {
				return 1
			}
			return 0
		case *Term:
			return norm(types.Int, fr.i.tt.Ite(b, fr.i.tt.Const(64, 1), fr.i.tt.Const(64, 0)))
		}
		panic("vB2I")
	})
	p("vStub", func(fr *frame, a []value) value {
		fr.i.ps.stubs[fr.primName(a[0])] = true
		return nil
	})
	p("vSymbolic", func(fr *frame, a []value) value { return true })
	p("vStop", func(fr *frame, a []value) value { panic(abort(abDone, "vStop")) })
	p("vConcretize", func(fr *frame, a []value) value {
		if t, ok := a[0].(*Term); ok {
			return int(fr.i.concretize(t, "vConcretize"))
		}
		return a[0]
	})
	p("vIsConcrete", func(fr *frame, a []value) value {
		_, ok := goString(a[0])
		return ok
	})
	p("vFresh", func(fr *frame, a []value) value {
		fr.i.ps.nfresh++
		return fr.i.ps.nfresh
	})
}

func (i *interpreter) dropKnown(id string) {
	ks := i.ps.known[:0:0]
	for _, k := range i.ps.known {
		if k.id != id {
			ks = append(ks, k)
		}
	}
	i.ps.known = ks
}

// chargeAlloc accounts an allocation of n elements of size sz against the harness budget.
func (fr *frame) chargeAlloc(n int64, sz int64) {
	ps := fr.i.ps
	if ps == nil || ps.allocB < 0 {
		return
	}
	ps.allocU += n * sz
	if ps.allocU > ps.allocB {
		fr.i.recordViolation("alloc-budget", fmt.Sprintf("allocation of %d bytes exceeds budget %d in %s", ps.allocU, ps.allocB, fr.fn))
		panic(abort(abViolation, "allocation budget exceeded"))
	}
}

// chargeAllocSym checks a possibly symbolic element count against the budget before it is concretised.
func (fr *frame) chargeAllocSym(n value, sz int64) {
	ps := fr.i.ps
	if ps == nil || ps.allocB < 0 {
		return
	}
	t, ok := n.(*Term)
	if !ok {
		fr.chargeAlloc(asInt64(n), sz)
		return
	}
	i := fr.i
	if sz <= 0 {
		sz = 1
	}
	remaining := (ps.allocB - ps.allocU) / sz
	if remaining < 0 {
		remaining = 0
	}
	// obligation: n <= remaining (signed; a negative n panics later instead of allocating)
	okc := i.tt.Bin(OpSLe, t, i.tt.Const(t.W, uint64(remaining)))
	i.checkAssert(okc, "alloc-budget")
}
