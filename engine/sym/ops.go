package sym

// Operators, conversions and builtins; derived from x/tools/go/ssa/interp (BSD licence) and
// extended with symbolic operands.

import (
	"fmt"
	"go/constant"
	"go/token"
	"go/types"
	"math"
	"os"
	"unicode/utf8"
	"unsafe"

	"golang.org/x/tools/go/ssa"
)

// If the target program panics, the interpreter panics with this type.
type targetPanic struct {
	v value
}

func (p targetPanic) String() string { return toString(p.v) }

// runtimeError builds a value implementing runtime.Error (the interpreter's runtime.errorString).
func (i *interpreter) runtimeError(msg string) value {
	return iface{i.runtimeErrorString, msg}
}

func (i *interpreter) rtPanic(msg string) targetPanic {
	return targetPanic{i.runtimeError("runtime error: " + msg)}
}

func constValue(c *ssa.Const) value {
	if c.Value == nil {
		return zero(c.Type()) // typed zero
	}
	if t, ok := c.Type().Underlying().(*types.Basic); ok {
		switch t.Kind() {
		case types.Bool, types.UntypedBool:
			return constant.BoolVal(c.Value)
		case types.Int, types.UntypedInt:
			return int(c.Int64())
		case types.Int8:
			return int8(c.Int64())
		case types.Int16:
			return int16(c.Int64())
		case types.Int32, types.UntypedRune:
			return int32(c.Int64())
		case types.Int64:
			return c.Int64()
		case types.Uint:
			return uint(c.Uint64())
		case types.Uint8:
			return uint8(c.Uint64())
		case types.Uint16:
			return uint16(c.Uint64())
		case types.Uint32:
			return uint32(c.Uint64())
		case types.Uint64:
			return c.Uint64()
		case types.Uintptr:
			return uintptr(c.Uint64())
		case types.Float32:
			return float32(c.Float64())
		case types.Float64, types.UntypedFloat:
			return c.Float64()
		case types.Complex64:
			return complex64(c.Complex128())
		case types.Complex128, types.UntypedComplex:
			return c.Complex128()
		case types.String, types.UntypedString:
			if c.Value.Kind() == constant.String {
				return constant.StringVal(c.Value)
			}
			return string(rune(c.Int64()))
		}
	}
	panic(fmt.Sprintf("constValue: %s", c))
}

// asInt64 converts a concrete integer to int64.
func asInt64(x value) int64 {
	switch x := x.(type) {
	case int:
		return int64(x)
	case int8:
		return int64(x)
	case int16:
		return int64(x)
	case int32:
		return int64(x)
	case int64:
		return x
	case uint:
		return int64(x)
	case uint8:
		return int64(x)
	case uint16:
		return int64(x)
	case uint32:
		return int64(x)
	case uint64:
		return int64(x)
	case uintptr:
		return int64(x)
	}
	panic(fmt.Sprintf("cannot convert %T to int64", x))
}

// concInt concretises (if needed) an integer value of static type t and returns it as int64.
func (fr *frame) concInt(x value, t types.Type, why string) int64 {
	if tm, ok := x.(*Term); ok {
		v := fr.i.concretize(tm, why)
		k, _ := basicKind(t)
		if kindUnsigned(k) {
			return int64(v)
		}
		return sext(v, tm.W)
	}
	return asInt64(x)
}

// zero returns a new "zero" value of the specified type.
func zero(t types.Type) value {
	switch t := t.(type) {
	case *types.Basic:
		if t.Kind() == types.UntypedNil {
			panic("untyped nil has no zero value")
		}
		if t.Info()&types.IsUntyped != 0 {
			t = types.Default(t).(*types.Basic)
		}
		switch t.Kind() {
		case types.Bool:
			return false
		case types.Int:
			return int(0)
		case types.Int8:
			return int8(0)
		case types.Int16:
			return int16(0)
		case types.Int32:
			return int32(0)
		case types.Int64:
			return int64(0)
		case types.Uint:
			return uint(0)
		case types.Uint8:
			return uint8(0)
		case types.Uint16:
			return uint16(0)
		case types.Uint32:
			return uint32(0)
		case types.Uint64:
			return uint64(0)
		case types.Uintptr:
			return uintptr(0)
		case types.Float32:
			return float32(0)
		case types.Float64:
			return float64(0)
		case types.Complex64:
			return complex64(0)
		case types.Complex128:
			return complex128(0)
		case types.String:
			return ""
		case types.UnsafePointer:
			return unsafe.Pointer(nil)
		default:
			panic(fmt.Sprint("zero for unexpected type:", t))
		}
	case *types.Pointer:
		return (*value)(nil)
	case *types.Array:
		a := make(array, t.Len())
		for i := range a {
			a[i] = zero(t.Elem())
		}
		return a
	case *types.Named:
		return zero(t.Underlying())
	case *types.Alias:
		return zero(types.Unalias(t))
	case *types.Interface:
		return iface{}
	case *types.Slice:
		return []value(nil)
	case *types.Struct:
		s := make(structure, t.NumFields())
		for i := range s {
			s[i] = zero(t.Field(i).Type())
		}
		return s
	case *types.Tuple:
		if t.Len() == 1 {
			return zero(t.At(0).Type())
		}
		s := make(tuple, t.Len())
		for i := range s {
			s[i] = zero(t.At(i).Type())
		}
		return s
	case *types.Chan:
		return (*vchan)(nil)
	case *types.Map:
		return (*omap)(nil)
	case *types.Signature:
		return (*ssa.Function)(nil)
	case *types.TypeParam:
		panic("zero: type parameter (generic function not instantiated)")
	}
	panic(fmt.Sprint("zero: unexpected ", t))
}

// slice returns x[lo:hi:max].  Any of lo, hi and max may be nil.
func (fr *frame) slice(instr *ssa.Slice, x, lo, hi, max value) value {
	var Len, Cap int
	switch x := x.(type) {
	case string:
		Len = len(x)
		Cap = Len
	case symstr:
		Len = len(x.c)
		Cap = Len
	case []value:
		Len = len(x)
		Cap = cap(x)
	case *value: // *array
		if x == nil {
			panic(fr.i.rtPanic("invalid memory address or nil pointer dereference"))
		}
		a := (*x).(array)
		Len = len(a)
		Cap = cap(a)
	}
	intT := types.Typ[types.Int]
	l := int64(0)
	if lo != nil {
		l = fr.concInt(lo, intT, "slice low")
	}
	h := int64(Len)
	if hi != nil {
		h = fr.concInt(hi, intT, "slice high")
	}
	m := int64(Cap)
	if max != nil {
		m = fr.concInt(max, intT, "slice max")
	}
	_, isStr := x.(string)
	_, isSym := x.(symstr)
	if isStr || isSym {
		if l < 0 || h < l || h > int64(Len) {
			panic(fr.i.rtPanic(fmt.Sprintf("slice bounds out of range [%d:%d] with length %d at %s <- %s", l, h, Len, fr.fn, fr.stackString(4))))
		}
	} else if l < 0 || h < l || m < h || m > int64(Cap) {
		panic(fr.i.rtPanic(fmt.Sprintf("slice bounds out of range [%d:%d:%d] with capacity %d at %s <- %s", l, h, m, Cap, fr.fn, fr.stackString(4))))
	}
	switch x := x.(type) {
	case string:
		return x[l:h]
	case symstr:
		return symstr{x.c[l:h:h]}
	case []value:
		if x == nil {
			return x
		}
		return x[l:h:m]
	case *value: // *array
		a := (*x).(array)
		return []value(a)[l:h:m]
	}
	panic(fmt.Sprintf("slice: unexpected X type: %T", x))
}

type integer interface {
	~int | ~int8 | ~int16 | ~int32 | ~int64 | ~uint | ~uint8 | ~uint16 | ~uint32 | ~uint64 | ~uintptr
}

func intBinop[T integer](i *interpreter, op token.Token, x, y T) (value, bool) {
	switch op {
	case token.ADD:
		return x + y, true
	case token.SUB:
		return x - y, true
	case token.MUL:
		return x * y, true
	case token.QUO:
		if y == 0 {
			panic(i.rtPanic("integer divide by zero"))
		}
		return x / y, true
	case token.REM:
		if y == 0 {
			panic(i.rtPanic("integer divide by zero"))
		}
		return x % y, true
	case token.AND:
		return x & y, true
	case token.OR:
		return x | y, true
	case token.XOR:
		return x ^ y, true
	case token.AND_NOT:
		return x &^ y, true
	case token.LSS:
		return x < y, true
	case token.LEQ:
		return x <= y, true
	case token.GTR:
		return x > y, true
	case token.GEQ:
		return x >= y, true
	}
	return nil, false
}

func floatBinop[T ~float32 | ~float64](op token.Token, x, y T) (value, bool) {
	switch op {
	case token.ADD:
		return x + y, true
	case token.SUB:
		return x - y, true
	case token.MUL:
		return x * y, true
	case token.QUO:
		return x / y, true
	case token.LSS:
		return x < y, true
	case token.LEQ:
		return x <= y, true
	case token.GTR:
		return x > y, true
	case token.GEQ:
		return x >= y, true
	}
	return nil, false
}

func shiftOp[T integer](op token.Token, x T, y uint64) value {
	if op == token.SHL {
		return x << y
	}
	return x >> y
}

// binop implements all arithmetic and logical binary operators.
func (i *interpreter) binop(op token.Token, t types.Type, x, y value) value {
	if op == token.EQL {
		return i.eqnil(t, x, y)
	}
	if op == token.NEQ {
		return i.notv(i.eqnil(t, x, y))
	}
	_, xs := x.(*Term)
	_, ys := y.(*Term)
	if xs || ys {
		return i.symBinop(op, t, x, y)
	}
	if _, ok := x.(symf64); ok {
		return i.symFloatCmp(op, x, y)
	}
	if _, ok := y.(symf64); ok {
		return i.symFloatCmp(op, x, y)
	}
	if op == token.SHL || op == token.SHR {
		var sh uint64
		switch y := y.(type) {
		case int, int8, int16, int32, int64:
			s := asInt64(y)
			if s < 0 {
				panic(i.rtPanic("negative shift amount"))
			}
			sh = uint64(s)
		default:
			sh = uint64(asInt64(y))
			if u, ok := y.(uint64); ok {
				sh = u
			}
		}
		switch x := x.(type) {
		case int:
			return shiftOp(op, x, sh)
		case int8:
			return shiftOp(op, x, sh)
		case int16:
			return shiftOp(op, x, sh)
		case int32:
			return shiftOp(op, x, sh)
		case int64:
			return shiftOp(op, x, sh)
		case uint:
			return shiftOp(op, x, sh)
		case uint8:
			return shiftOp(op, x, sh)
		case uint16:
			return shiftOp(op, x, sh)
		case uint32:
			return shiftOp(op, x, sh)
		case uint64:
			return shiftOp(op, x, sh)
		case uintptr:
			return shiftOp(op, x, sh)
		}
		panic(fmt.Sprintf("invalid shift: %T %s %T", x, op, y))
	}
	var r value
	var ok bool
	switch x := x.(type) {
	case int:
		r, ok = intBinop(i, op, x, y.(int))
	case int8:
		r, ok = intBinop(i, op, x, y.(int8))
	case int16:
		r, ok = intBinop(i, op, x, y.(int16))
	case int32:
		r, ok = intBinop(i, op, x, y.(int32))
	case int64:
		r, ok = intBinop(i, op, x, y.(int64))
	case uint:
		r, ok = intBinop(i, op, x, y.(uint))
	case uint8:
		r, ok = intBinop(i, op, x, y.(uint8))
	case uint16:
		r, ok = intBinop(i, op, x, y.(uint16))
	case uint32:
		r, ok = intBinop(i, op, x, y.(uint32))
	case uint64:
		r, ok = intBinop(i, op, x, y.(uint64))
	case uintptr:
		r, ok = intBinop(i, op, x, y.(uintptr))
	case float32:
		r, ok = floatBinop(op, x, y.(float32))
	case float64:
		r, ok = floatBinop(op, x, y.(float64))
	case complex64:
		yy := y.(complex64)
		switch op {
		case token.ADD:
			return x + yy
		case token.SUB:
			return x - yy
		case token.MUL:
			return x * yy
		case token.QUO:
			return x / yy
		}
	case complex128:
		yy := y.(complex128)
		switch op {
		case token.ADD:
			return x + yy
		case token.SUB:
			return x - yy
		case token.MUL:
			return x * yy
		case token.QUO:
			return x / yy
		}
	case string:
		if ys, isStr := y.(string); isStr {
			switch op {
			case token.ADD:
				return x + ys
			case token.LSS:
				return x < ys
			case token.LEQ:
				return x <= ys
			case token.GTR:
				return x > ys
			case token.GEQ:
				return x >= ys
			}
		}
		return i.strBinop(op, x, y)
	case symstr:
		return i.strBinop(op, x, y)
	}
	if ok {
		return r
	}
	panic(fmt.Sprintf("invalid binary op: %T %s %T", x, op, y))
}

func (i *interpreter) strBinop(op token.Token, x, y value) value {
	cx, cy := strCells(x), strCells(y)
	switch op {
	case token.ADD:
		c := make([]value, 0, len(cx)+len(cy))
		c = append(c, cx...)
		c = append(c, cy...)
		return mkStringCopy(c)
	case token.LSS, token.LEQ, token.GTR, token.GEQ:
		// lexicographic comparison as a term: lt / eq accumulators from the end
		n := len(cx)
		if len(cy) < n {
			n = len(cy)
		}
		// less := first differing position k has x[k] < y[k], or common prefix equal and len(x) < len(y)
		var less, eq value
		eq = true
		less = len(cx) < len(cy)
		eq = len(cx) == len(cy)
		for k := n - 1; k >= 0; k-- {
			a, b := i.toTerm(cx[k]), i.toTerm(cy[k])
			lt := i.tt.Bin(OpULt, a, b)
			e := i.tt.Eq(a, b)
			less = i.orv(i.termVal(lt), i.andv(i.termVal(e), less))
			eq = i.andv(i.termVal(e), eq)
		}
		switch op {
		case token.LSS:
			return less
		case token.LEQ:
			return i.orv(less, eq)
		case token.GTR:
			return i.notv(i.orv(less, eq))
		default:
			return i.notv(less)
		}
	}
	panic(fmt.Sprintf("invalid string op %s", op))
}

func (i *interpreter) termVal(t *Term) value {
	if t.Op == OpConst {
		if t.W == 0 {
			return t.Val != 0
		}
	}
	return t
}

// symBinop handles integer/bool operators with at least one symbolic operand.
func (i *interpreter) symBinop(op token.Token, t types.Type, x, y value) value {
	k, ok := basicKind(t)
	if !ok {
		panic(abort(abUnsupported, fmt.Sprintf("symbolic operand of non-basic type %s", t)))
	}
	if k == types.Float32 || k == types.Float64 || k == types.UntypedFloat {
		panic(abort(abUnsupported, "symbolic floating-point arithmetic"))
	}
	tt := i.tt
	a := i.toTerm(x)
	uns := kindUnsigned(k)
	if op == token.SHL || op == token.SHR {
		b := i.toTerm(y)
		w := a.W
		var big *Term = tt.False
		if b.W > w {
			big = tt.Bin(OpULe, tt.Const(b.W, uint64(w)), b)
			b = tt.Extract(b, 0, w)
		} else {
			b = tt.ZExt(b, w)
		}
		var r *Term
		switch {
		case op == token.SHL:
			r = tt.Ite(big, tt.Const(w, 0), tt.Bin(OpShl, a, b))
		case uns:
			r = tt.Ite(big, tt.Const(w, 0), tt.Bin(OpLShr, a, b))
		default:
			r = tt.Ite(big, tt.Bin(OpAShr, a, tt.Const(w, uint64(w-1))), tt.Bin(OpAShr, a, b))
		}
		return norm(k, r)
	}
	b := i.toTerm(y)
	if a.W == 0 { // booleans: only && || via phi; EQL/NEQ handled earlier
		switch op {
		case token.AND, token.LAND:
			return i.termVal(tt.And(a, b))
		case token.OR, token.LOR:
			return i.termVal(tt.Or(a, b))
		}
		panic(fmt.Sprintf("invalid bool op %s", op))
	}
	cmp := func(o Op, p, q *Term) value { return i.termVal(tt.Bin(o, p, q)) }
	switch op {
	case token.ADD:
		return norm(k, tt.Bin(OpAdd, a, b))
	case token.SUB:
		return norm(k, tt.Bin(OpSub, a, b))
	case token.MUL:
		return norm(k, tt.Bin(OpMul, a, b))
	case token.QUO, token.REM:
		if i.decide(tt.Eq(b, tt.Const(b.W, 0))) {
			panic(i.rtPanic("integer divide by zero"))
		}
		var o Op
		switch {
		case op == token.QUO && uns:
			o = OpUDiv
		case op == token.QUO:
			o = OpSDiv
		case uns:
			o = OpURem
		default:
			o = OpSRem
		}
		return norm(k, tt.Bin(o, a, b))
	case token.AND:
		return norm(k, tt.Bin(OpBAnd, a, b))
	case token.OR:
		return norm(k, tt.Bin(OpBOr, a, b))
	case token.XOR:
		return norm(k, tt.Bin(OpBXor, a, b))
	case token.AND_NOT:
		return norm(k, tt.Bin(OpBAnd, a, tt.BNot(b)))
	case token.LSS:
		if uns {
			return cmp(OpULt, a, b)
		}
		return cmp(OpSLt, a, b)
	case token.LEQ:
		if uns {
			return cmp(OpULe, a, b)
		}
		return cmp(OpSLe, a, b)
	case token.GTR:
		if uns {
			return cmp(OpULt, b, a)
		}
		return cmp(OpSLt, b, a)
	case token.GEQ:
		if uns {
			return cmp(OpULe, b, a)
		}
		return cmp(OpSLe, b, a)
	}
	panic(fmt.Sprintf("invalid symbolic binary op: %s", op))
}

// eqnil returns the comparison x == y using the equivalence relation appropriate for type t.
func (i *interpreter) eqnil(t types.Type, x, y value) value {
	switch t.Underlying().(type) {
	case *types.Map, *types.Signature, *types.Slice:
		// one of the operands must be a literal nil.
		return isNilRef(x) == isNilRef(y)
	}
	return i.eqv(t, x, y)
}

func isNilRef(x value) bool {
	switch x := x.(type) {
	case *omap:
		return x == nil
	case *ssa.Function:
		return x == nil
	case *closure:
		return x == nil
	case *ssa.Builtin:
		return x == nil
	case []value:
		return x == nil
	case *boundMethod:
		return x == nil
	}
	panic(fmt.Sprintf("isNilRef: illegal dynamic type: %T", x))
}

func (fr *frame) unop(instr *ssa.UnOp, x value) value {
	i := fr.i
	switch instr.Op {
	case token.ARROW: // receive
		return fr.chanRecv(instr, x.(*vchan))
	case token.SUB:
		switch x := x.(type) {
		case int:
			return -x
		case int8:
			return -x
		case int16:
			return -x
		case int32:
			return -x
		case int64:
			return -x
		case uint:
			return -x
		case uint8:
			return -x
		case uint16:
			return -x
		case uint32:
			return -x
		case uint64:
			return -x
		case uintptr:
			return -x
		case float32:
			return -x
		case float64:
			return -x
		case complex64:
			return -x
		case complex128:
			return -x
		case *Term:
			k, _ := basicKind(instr.X.Type())
			return norm(k, i.tt.Neg(x))
		}
	case token.MUL:
		return i.load(deref(instr.X.Type()), x)
	case token.NOT:
		return i.notv(x)
	case token.XOR:
		switch x := x.(type) {
		case int:
			return ^x
		case int8:
			return ^x
		case int16:
			return ^x
		case int32:
			return ^x
		case int64:
			return ^x
		case uint:
			return ^x
		case uint8:
			return ^x
		case uint16:
			return ^x
		case uint32:
			return ^x
		case uint64:
			return ^x
		case uintptr:
			return ^x
		case *Term:
			k, _ := basicKind(instr.X.Type())
			return norm(k, i.tt.BNot(x))
		}
	}
	panic(fmt.Sprintf("invalid unary op %s %T", instr.Op, x))
}

// deref returns the element type of a pointer type (via core type).
func deref(t types.Type) types.Type {
	if p, ok := t.Underlying().(*types.Pointer); ok {
		return p.Elem()
	}
	panic(fmt.Sprintf("deref: not a pointer: %s", t))
}

// typeAssert checks whether dynamic type of itf is instr.AssertedType.
func (i *interpreter) typeAssert(instr *ssa.TypeAssert, itf iface) value {
	var v value
	err := ""
	if itf.t == nil {
		err = fmt.Sprintf("interface conversion: interface is nil, not %s", instr.AssertedType)
	} else if idst, ok := instr.AssertedType.Underlying().(*types.Interface); ok {
		v = itf
		if meth, _ := types.MissingMethod(itf.t, idst, true); meth != nil {
			err = fmt.Sprintf("interface conversion: %v is not %v: missing method %s", itf.t, idst, meth.Name())
		}
	} else if types.Identical(itf.t, instr.AssertedType) {
		v = itf.v // extract value
	} else {
		err = fmt.Sprintf("interface conversion: interface is %s, not %s", itf.t, instr.AssertedType)
	}
	if err != "" {
		if !instr.CommaOk {
			panic(targetPanic{i.runtimeError(err)})
		}
		return tuple{zero(instr.AssertedType), false}
	}
	if instr.CommaOk {
		return tuple{v, true}
	}
	return v
}

// appendCells implements append for slices, logging in-place writes.
func (i *interpreter) appendCells(dst []value, src []value, elemT types.Type) []value {
	if len(src) == 0 {
		return dst
	}
	n := len(dst) + len(src)
	if n <= cap(dst) {
		res := dst[:n]
		for k := range src {
			i.wr(&res[len(dst)+k], src[k])
		}
		return res
	}
	// grow exactly like runtime.growslice (go1.23, amd64): whether a later append writes into
	// memory shared with another slice header depends on the capacity chosen here
	var esz int64 = 1
	noscan := true
	if elemT != nil {
		esz = stdSizes.Sizeof(elemT)
		noscan = !typeHasPointers(elemT)
	}
	nc := growCap(cap(dst), n, esz, noscan)
	res := make([]value, n, nc)
	copy(res, dst)
	copy(res[len(dst):], src)
	// spare capacity is zeroed memory in Go (code may reslice into it)
	spare := res[n:nc]
	for k := range spare {
		if elemT != nil {
			spare[k] = zero(elemT)
		} else {
			spare[k] = uint8(0)
		}
	}
	return res
}

// callBuiltin interprets a call to builtin fn with arguments args.
func (fr *frame) callBuiltin(callpos token.Pos, fn *ssa.Builtin, args []value, callInstr ssa.CallInstruction) value {
	i := fr.i
	switch fn.Name() {
	case "append":
		if len(args) == 1 {
			return args[0]
		}
		var src []value
		switch s := args[1].(type) {
		case string, symstr:
			src = strCells(s)
		case []value:
			src = s
		}
		dst := args[0].([]value)
		if len(src) == 0 {
			return dst
		}
		if len(dst)+len(src) > cap(dst) {
			fr.chargeAlloc(int64(len(dst)+len(src)), elemSizeOfSlice(fn.Type().(*types.Signature).Params().At(0).Type()))
		}
		res := i.appendCells(dst, src, sliceElem(fn.Type().(*types.Signature).Params().At(0).Type()))
		// zero-valued elements appended from a typed slice keep their values (no copy needed: values immutable
		// except aggregates which must be copied)
		if et := sliceElem(fn.Type().(*types.Signature).Params().At(0).Type()); et != nil && isAggregate(et) {
			for k := len(dst); k < len(res); k++ {
				res[k] = copyAgg(res[k])
			}
		}
		return res

	case "copy": // copy([]T, []T) int or copy([]byte, string) int
		var src []value
		switch s := args[1].(type) {
		case string, symstr:
			src = strCells(s)
		case []value:
			src = s
		}
		dst := args[0].([]value)
		n := len(dst)
		if len(src) < n {
			n = len(src)
		}
		if n == 0 {
			return 0
		}
		// handle overlap: copy via temp
		tmp := make([]value, n)
		copy(tmp, src[:n])
		agg := false
		if et := sliceElem(fn.Type().(*types.Signature).Params().At(0).Type()); et != nil && isAggregate(et) {
			agg = true
		}
		for k := 0; k < n; k++ {
			v := tmp[k]
			if agg {
				v = copyAgg(v)
			}
			i.wr(&dst[k], v)
		}
		return n

	case "close": // close(chan T)
		fr.chanClose(args[0].(*vchan))
		return nil

	case "clear":
		switch m := args[0].(type) {
		case *omap:
			m.clear(i)
		case []value:
			et := sliceElem(fn.Type().(*types.Signature).Params().At(0).Type())
			for k := range m {
				i.wr(&m[k], zero(et))
			}
		}
		return nil

	case "delete": // delete(map[K]value, K)
		args[0].(*omap).delete(fr, args[1])
		return nil

	case "print", "println": // print(any, ...)
		ln := fn.Name() == "println"
		s := ""
		for k, arg := range args {
			if k > 0 && ln {
				s += " "
			}
			s += toString(arg)
		}
		if ln {
			s += "\n"
		}
		os.Stderr.WriteString(s)
		return nil

	case "len":
		switch x := args[0].(type) {
		case string:
			return len(x)
		case symstr:
			return len(x.c)
		case array:
			return len(x)
		case *value:
			if x == nil {
				// len of nil *array is the array length (static)
				pt := fn.Type().(*types.Signature).Params().At(0).Type()
				return int(deref(pt).Underlying().(*types.Array).Len())
			}
			return len((*x).(array))
		case []value:
			return len(x)
		case *omap:
			return x.len()
		case *vchan:
			return x.length()
		default:
			panic(fmt.Sprintf("len: illegal operand: %T", x))
		}

	case "cap":
		switch x := args[0].(type) {
		case array:
			return cap(x)
		case *value:
			return cap((*x).(array))
		case []value:
			return cap(x)
		case *vchan:
			if x == nil {
				return 0
			}
			return x.capacity
		default:
			panic(fmt.Sprintf("cap: illegal operand: %T", x))
		}

	case "min", "max":
		t := fn.Type().(*types.Signature).Params().At(0).Type()
		x := args[0]
		for _, y := range args[1:] {
			var c value
			if fn.Name() == "min" {
				c = i.binop(token.LSS, t, y, x)
			} else {
				c = i.binop(token.GTR, t, y, x)
			}
			if cb, ok := c.(bool); ok {
				if cb {
					x = y
				}
			} else {
				k, _ := basicKind(t)
				x = norm(k, i.tt.Ite(c.(*Term), i.toTerm(y), i.toTerm(x)))
			}
		}
		return x

	case "real":
		switch c := args[0].(type) {
		case complex64:
			return real(c)
		case complex128:
			return real(c)
		}
	case "imag":
		switch c := args[0].(type) {
		case complex64:
			return imag(c)
		case complex128:
			return imag(c)
		}
	case "complex":
		switch f := args[0].(type) {
		case float32:
			return complex(f, args[1].(float32))
		case float64:
			return complex(f, args[1].(float64))
		}

	case "panic":
		panic(targetPanic{args[0]})

	case "recover":
		return doRecover(fr)

	case "ssa:wrapnilchk":
		recv := args[0]
		if p, ok := recv.(*value); ok && p == nil {
			recvType := args[1]
			methodName := args[2]
			panic(targetPanic{i.runtimeError(fmt.Sprintf("value method (%s).%s called using nil *%s pointer",
				toString(recvType), toString(methodName), toString(recvType)))})
		}
		return recv

	case "ssa:deferstack":
		return &fr.defers

	case "String": // unsafe.String(ptr, len)
		n := fr.concInt(args[1], types.Typ[types.Int], "unsafe.String len")
		switch p := args[0].(type) {
		case sdata:
			if int(n) > len(p.cells) {
				panic(abort(abUnsupported, "unsafe.String beyond backing array"))
			}
			return symstr{p.cells[:n:n]}
		case *value:
			if p == nil || n == 0 {
				return ""
			}
		}
		if n == 0 {
			return ""
		}
		panic(abort(abUnsupported, fmt.Sprintf("unsafe.String on %T", args[0])))
	case "StringData":
		return sdata{strCells(args[0])}
	case "Slice": // unsafe.Slice(ptr, len)
		n := fr.concInt(args[1], types.Typ[types.Int], "unsafe.Slice len")
		switch p := args[0].(type) {
		case sdata:
			if int(n) > len(p.cells) {
				panic(abort(abUnsupported, "unsafe.Slice beyond backing array"))
			}
			if len(p.cells) == 0 {
				return []value(nil)
			}
			return p.cells[:n:n]
		case *value:
			if p == nil {
				return []value(nil)
			}
		}
		panic(abort(abUnsupported, fmt.Sprintf("unsafe.Slice on %T", args[0])))
	case "SliceData":
		s := args[0].([]value)
		return sdata{s[:len(s):cap(s)]}
	case "Add", "Offsetof", "Sizeof", "Alignof":
		panic(abort(abUnsupported, "unsafe."+fn.Name()))
	}
	panic("unknown built-in: " + fn.Name())
}

func sliceElem(t types.Type) types.Type {
	if s, ok := t.Underlying().(*types.Slice); ok {
		return s.Elem()
	}
	return nil
}

func isAggregate(t types.Type) bool {
	switch t.Underlying().(type) {
	case *types.Struct, *types.Array:
		return true
	}
	return false
}

// copyAgg deep-copies struct/array values (value semantics).
func copyAgg(v value) value {
	switch x := v.(type) {
	case structure:
		a := make(structure, len(x))
		for k := range x {
			a[k] = copyAgg(x[k])
		}
		return a
	case array:
		a := make(array, len(x))
		for k := range x {
			a[k] = copyAgg(x[k])
		}
		return a
	}
	return v
}

func elemSizeOfSlice(t types.Type) int64 {
	if s, ok := t.Underlying().(*types.Slice); ok {
		return stdSizes.Sizeof(s.Elem())
	}
	return 8
}

var stdSizes = types.SizesFor("gc", "amd64")

var sizeClasses = []int64{0, 8, 16, 24, 32, 48, 64, 80, 96, 112, 128, 144, 160, 176, 192, 208, 224, 240, 256, 288, 320, 352, 384, 416, 448, 480, 512, 576, 640, 704, 768, 896, 1024, 1152, 1280, 1408, 1536, 1792, 2048, 2304, 2688, 3072, 3200, 3456, 4096, 4864, 5120, 5376, 6144, 6528, 6784, 6912, 8192, 9472, 9728, 10240, 10880, 12288, 13568, 14336, 16384, 18432, 19072, 20480, 21760, 24576, 27264, 28672, 32768}

// roundupsize mirrors runtime.roundupsize (malloc header of 8 bytes for pointerful objects > 512 B).
func roundupsize(size int64, noscan bool) int64 {
	req := size
	if !noscan && size > 512 {
		size += 8
	}
	if size <= 32768-8 || (noscan && size <= 32768) {
		for _, c := range sizeClasses {
			if c >= size {
				return c - (size - req)
			}
		}
	}
	size = req
	const page = 8192
	return (size + page - 1) / page * page
}

// growCap mirrors runtime.nextslicecap + the size-class rounding of growslice.
func growCap(oldCap, newLen int, esz int64, noscan bool) int {
	newcap := oldCap
	doublecap := newcap + newcap
	if newLen > doublecap {
		newcap = newLen
	} else {
		const threshold = 256
		if oldCap < threshold {
			newcap = doublecap
		} else {
			for newcap < newLen {
				newcap += (newcap + 3*threshold) >> 2
			}
		}
	}
	if esz <= 0 {
		return newcap
	}
	mem := roundupsize(int64(newcap)*esz, noscan)
	return int(mem / esz)
}

func typeHasPointers(t types.Type) bool {
	switch u := t.Underlying().(type) {
	case *types.Basic:
		return u.Kind() == types.String || u.Kind() == types.UnsafePointer
	case *types.Array:
		return u.Len() > 0 && typeHasPointers(u.Elem())
	case *types.Struct:
		for k := 0; k < u.NumFields(); k++ {
			if typeHasPointers(u.Field(k).Type()) {
				return true
			}
		}
		return false
	}
	return true
}

type stringIter struct {
	cells []value
	pos   int
}

func (it *stringIter) next(fr *frame) tuple {
	if it.pos >= len(it.cells) {
		return tuple{false, nil, nil}
	}
	start := it.pos
	c := it.cells[it.pos]
	if b, ok := c.(uint8); ok {
		if b < utf8.RuneSelf {
			it.pos++
			return tuple{true, start, rune(b)}
		}
		// need following bytes concrete
		buf := []byte{b}
		for k := it.pos + 1; k < len(it.cells) && k < it.pos+4; k++ {
			bb, ok := it.cells[k].(uint8)
			if !ok {
				bb = uint8(fr.i.concretize(it.cells[k].(*Term), "utf8 continuation byte"))
			}
			buf = append(buf, bb)
		}
		r, n := utf8.DecodeRune(buf)
		it.pos += n
		return tuple{true, start, r}
	}
	t := c.(*Term)
	if fr.decide(fr.i.tt.Bin(OpULt, t, fr.i.tt.Const(8, utf8.RuneSelf))) {
		it.pos++
		return tuple{true, start, norm(types.Int32, fr.i.tt.ZExt(t, 32))}
	}
	// non-ASCII lead byte: concretise the sequence
	b := uint8(fr.i.concretize(t, "utf8 lead byte"))
	buf := []byte{b}
	for k := it.pos + 1; k < len(it.cells) && k < it.pos+4; k++ {
		bb, ok := it.cells[k].(uint8)
		if !ok {
			bb = uint8(fr.i.concretize(it.cells[k].(*Term), "utf8 continuation byte"))
		}
		buf = append(buf, bb)
	}
	r, n := utf8.DecodeRune(buf)
	it.pos += n
	return tuple{true, start, r}
}

func (fr *frame) rangeIter(x value, t types.Type) iter {
	switch x := x.(type) {
	case *omap:
		it := &omapIter{m: x}
		if x != nil {
			it.rest = append([]*ment{}, x.ents...)
			it.permute = fr.i.ps != nil && fr.i.ps.permute && fr.i.isTargetFn(fr.fn) && len(x.ents) > 1
		}
		return it
	case string, symstr:
		return &stringIter{cells: strCells(x)}
	}
	panic(fmt.Sprintf("cannot range over %T", x))
}

// conv converts the value x of type t_src to type t_dst.
func (fr *frame) conv(t_dst, t_src types.Type, x value) value {
	i := fr.i
	ut_src := t_src.Underlying()
	ut_dst := t_dst.Underlying()

	switch ut_src := ut_src.(type) {
	case *types.Pointer:
		if b, ok := ut_dst.(*types.Basic); ok && b.Kind() == types.UnsafePointer {
			switch p := x.(type) {
			case *value:
				return unsafe.Pointer(p)
			case sdata:
				return p
			}
		}
		if _, ok := ut_dst.(*types.Pointer); ok {
			return x
		}

	case *types.Slice:
		// []byte or []rune -> string
		switch ut_src.Elem().Underlying().(*types.Basic).Kind() {
		case types.Byte:
			return mkStringCopy(x.([]value))
		case types.Rune:
			xs := x.([]value)
			var buf []byte
			for k := range xs {
				r, ok := xs[k].(int32)
				if !ok {
					r = int32(fr.concInt(xs[k], types.Typ[types.Int32], "rune->string"))
				}
				buf = utf8.AppendRune(buf, r)
			}
			return string(buf)
		}

	case *types.Basic:
		// unsafe.Pointer -> *T
		if ut_src.Kind() == types.UnsafePointer {
			switch p := x.(type) {
			case unsafe.Pointer:
				if _, ok := ut_dst.(*types.Pointer); ok {
					return (*value)(p)
				}
				if b, ok := ut_dst.(*types.Basic); ok && b.Kind() == types.Uintptr {
					return uintptr(p)
				}
			case sdata:
				return p
			}
			panic(abort(abUnsupported, fmt.Sprintf("unsafe.Pointer conversion to %s", t_dst)))
		}
		if ut_src.Kind() == types.Uintptr {
			if b, ok := ut_dst.(*types.Basic); ok && b.Kind() == types.UnsafePointer {
				panic(abort(abUnsupported, "uintptr -> unsafe.Pointer"))
			}
		}

		// string source
		if ut_src.Info()&types.IsString != 0 {
			switch ut_dst := ut_dst.(type) {
			case *types.Slice:
				switch ut_dst.Elem().Underlying().(*types.Basic).Kind() {
				case types.Rune:
					var res []value
					it := &stringIter{cells: strCells(x)}
					for {
						t := it.next(fr)
						if !t[0].(bool) {
							break
						}
						res = append(res, t[2])
					}
					return res
				case types.Byte:
					cells := strCells(x)
					res := make([]value, len(cells))
					copy(res, cells)
					if len(res) == 0 {
						return []value{}
					}
					return res
				}
			case *types.Basic:
				if ut_dst.Info()&types.IsString != 0 {
					return x
				}
			}
			break
		}

		db, ok := ut_dst.(*types.Basic)
		if !ok {
			break
		}
		// integer -> string
		if ut_src.Info()&types.IsInteger != 0 && db.Info()&types.IsString != 0 {
			n := fr.concInt(x, t_src, "integer->string")
			return string(rune(n))
		}
		if tm, ok := x.(*Term); ok {
			// symbolic integer conversions
			if db.Info()&types.IsFloat != 0 {
				n := fr.concInt(x, t_src, "integer->float conversion")
				if kindUnsigned(ut_src.Kind()) {
					r, _ := convFromUint(db.Kind(), uint64(n))
					return r
				}
				r, _ := convFromInt(db.Kind(), n)
				return r
			}
			dk := db.Kind()
			dw := kindWidth(dk)
			if dw == 0 {
				return x
			}
			var r *Term
			switch {
			case dw <= tm.W:
				r = i.tt.Extract(tm, 0, dw)
			case kindUnsigned(ut_src.Kind()):
				r = i.tt.ZExt(tm, dw)
			default:
				r = i.tt.SExt(tm, dw)
			}
			return norm(dk, r)
		}
		if r, ok := convNumeric(db.Kind(), x); ok {
			return r
		}
	}
	panic(fmt.Sprintf("unsupported conversion: %s  -> %s, dynamic type %T", t_src, t_dst, x))
}

func convNumeric(kind types.BasicKind, x value) (value, bool) {
	switch v := x.(type) {
	case int, int8, int16, int32, int64:
		return convFromInt(kind, asInt64(v))
	case uint, uint8, uint16, uint32, uintptr:
		return convFromUint(kind, uint64(asInt64(v)))
	case uint64:
		return convFromUint(kind, v)
	case float32:
		return convFromFloat(kind, float64(v))
	case float64:
		return convFromFloat(kind, v)
	case complex64:
		switch kind {
		case types.Complex64:
			return v, true
		case types.Complex128:
			return complex128(v), true
		}
	case complex128:
		switch kind {
		case types.Complex64:
			return complex64(v), true
		case types.Complex128:
			return v, true
		}
	case bool:
		if kind == types.Bool {
			return v, true
		}
	}
	return nil, false
}

func convFromInt(kind types.BasicKind, x int64) (value, bool) {
	switch kind {
	case types.Float32:
		return float32(x), true
	case types.Float64:
		return float64(x), true
	}
	if kindWidth(kind) == 0 {
		return nil, false
	}
	return fromBits(kind, uint64(x)), true
}

func convFromUint(kind types.BasicKind, x uint64) (value, bool) {
	switch kind {
	case types.Float32:
		return float32(x), true
	case types.Float64:
		return float64(x), true
	}
	if kindWidth(kind) == 0 {
		return nil, false
	}
	return fromBits(kind, x), true
}

func convFromFloat(kind types.BasicKind, x float64) (value, bool) {
	switch kind {
	case types.Float32:
		return float32(x), true
	case types.Float64:
		return x, true
	case types.Int:
		return int(x), true
	case types.Int8:
		return int8(x), true
	case types.Int16:
		return int16(x), true
	case types.Int32:
		return int32(x), true
	case types.Int64:
		return int64(x), true
	case types.Uint:
		return uint(x), true
	case types.Uint8:
		return uint8(x), true
	case types.Uint16:
		return uint16(x), true
	case types.Uint32:
		return uint32(x), true
	case types.Uint64:
		return uint64(x), true
	case types.Uintptr:
		return uintptr(x), true
	}
	return nil, false
}

// sliceToArrayPointer converts the value x of type slice to a pointer to array.
func (i *interpreter) sliceToArrayPointer(t_dst, t_src types.Type, x value) value {
	if _, ok := t_src.Underlying().(*types.Slice); ok {
		if ptr, ok := t_dst.Underlying().(*types.Pointer); ok {
			if arr, ok := ptr.Elem().Underlying().(*types.Array); ok {
				x := x.([]value)
				if arr.Len() > int64(len(x)) {
					panic(i.rtPanic("cannot convert slice to array pointer: length too short"))
				}
				if x == nil {
					return zero(t_dst)
				}
				v := value(array(x[:arr.Len()]))
				return &v
			}
		}
	}
	panic(fmt.Sprintf("unsupported conversion: %s  -> %s, dynamic type %T", t_src, t_dst, x))
}

var _ = math.Abs

func (i *interpreter) floatBits(v value) *Term {
	switch f := v.(type) {
	case symf64:
		return f.bits
	case float64:
		if f != f || f < 0 || (f == 0 && math.Signbit(f)) {
			panic(abort(abUnsupported, "comparison of a symbolic float with a negative/NaN constant"))
		}
		return i.tt.Const(64, math.Float64bits(f))
	}
	panic(abort(abUnsupported, fmt.Sprintf("symbolic float comparison with %T", v)))
}

// symFloatCmp compares non-negative non-NaN floats through their bit patterns.
func (i *interpreter) symFloatCmp(op token.Token, x, y value) value {
	a, b := i.floatBits(x), i.floatBits(y)
	switch op {
	case token.LSS:
		return i.termVal(i.tt.Bin(OpULt, a, b))
	case token.LEQ:
		return i.termVal(i.tt.Bin(OpULe, a, b))
	case token.GTR:
		return i.termVal(i.tt.Bin(OpULt, b, a))
	case token.GEQ:
		return i.termVal(i.tt.Bin(OpULe, b, a))
	}
	panic(abort(abUnsupported, "symbolic floating-point arithmetic ("+op.String()+")"))
}
