package sym

// Insertion-ordered map with deterministic iteration, symbolic-key lookups (forking on
// equality) and optional exploration of iteration orders.

import (
	"go/types"
)

type ment struct {
	k, v    value
	ck      interface{}
	hasCK   bool
	deleted bool
}

type omap struct {
	kt   types.Type
	ents []*ment
	idx  map[interface{}]*ment
	nsym int // number of live entries without canonical key
}

func makeMap(kt types.Type) *omap {
	return &omap{kt: kt, idx: make(map[interface{}]*ment)}
}

func (m *omap) len() int {
	if m == nil {
		return 0
	}
	return len(m.ents)
}

func (m *omap) find(fr *frame, k value) *ment {
	if m == nil {
		return nil
	}
	ck, ok := canonKey(m.kt, k)
	if ok && m.nsym == 0 {
		return m.idx[ck]
	}
	for _, e := range m.ents {
		if ok && e.hasCK {
			if e.ck == ck {
				return e
			}
			continue
		}
		c := fr.i.eqv(m.kt, k, e.k)
		if b, isb := c.(bool); isb {
			if b {
				return e
			}
			continue
		}
		if fr.decide(c.(*Term)) {
			return e
		}
	}
	return nil
}

func (m *omap) lookup(fr *frame, k value) (value, bool) {
	if e := m.find(fr, k); e != nil {
		return e.v, true
	}
	return nil, false
}

func (m *omap) insert(fr *frame, k, v value) {
	i := fr.i
	if e := m.find(fr, k); e != nil {
		i.wr(&e.v, v)
		return
	}
	e := &ment{k: k, v: v}
	e.ck, e.hasCK = canonKey(m.kt, k)
	m.ents = append(m.ents, e)
	if e.hasCK {
		m.idx[e.ck] = e
	} else {
		m.nsym++
	}
	i.logUndo(func() {
		m.ents = m.ents[:len(m.ents)-1]
		if e.hasCK {
			delete(m.idx, e.ck)
		} else {
			m.nsym--
		}
	})
}

func (m *omap) delete(fr *frame, k value) {
	if m == nil {
		return
	}
	e := m.find(fr, k)
	if e == nil {
		return
	}
	m.remove(fr.i, e)
}

func (m *omap) remove(i *interpreter, e *ment) {
	pos := -1
	for j, x := range m.ents {
		if x == e {
			pos = j
			break
		}
	}
	if pos < 0 {
		return
	}
	old := m.ents
	ne := make([]*ment, 0, len(old)-1)
	ne = append(ne, old[:pos]...)
	ne = append(ne, old[pos+1:]...)
	m.ents = ne
	e.deleted = true
	if e.hasCK {
		delete(m.idx, e.ck)
	} else {
		m.nsym--
	}
	i.logUndo(func() {
		m.ents = old
		e.deleted = false
		if e.hasCK {
			m.idx[e.ck] = e
		} else {
			m.nsym++
		}
	})
}

func (m *omap) clear(i *interpreter) {
	if m == nil {
		return
	}
	for len(m.ents) > 0 {
		m.remove(i, m.ents[len(m.ents)-1])
	}
}

type omapIter struct {
	m       *omap
	rest    []*ment
	permute bool
}

func (it *omapIter) next(fr *frame) tuple {
	for len(it.rest) > 0 {
		k := 0
		if it.permute {
			// choose among the live remaining entries
			live := it.rest[:0:0]
			for _, e := range it.rest {
				if !e.deleted {
					live = append(live, e)
				}
			}
			it.rest = live
			if len(live) == 0 {
				break
			}
			if len(live) > 1 {
				k = fr.i.choice(len(live), "maprange")
			}
		}
		e := it.rest[k]
		it.rest = append(it.rest[:k:k], it.rest[k+1:]...)
		if e.deleted {
			continue
		}
		return tuple{true, e.k, e.v}
	}
	return tuple{false, nil, nil}
}
