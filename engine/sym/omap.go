package sym

// Insertion-ordered map with deterministic iteration, symbolic-key lookups (forking on
// equality) and optional exploration of iteration orders.

import (
	"go/types"
)

type ment struct {
	k, v    value
	ck      interface{}
	hasCK   bool
	deleted bool
}

type omap struct {
	kt    types.Type
	ents  []*ment
	idx   map[interface{}]*ment
	nsym  int // number of live entries without canonical key
	nview int // number of entries ever stored with a key that is a view of byte cells (unsafe string)
}

func makeMap(kt types.Type) *omap {
	return &omap{kt: kt, idx: make(map[interface{}]*ment)}
}

func (m *omap) len() int {
	if m == nil {
		return 0
	}
	return len(m.ents)
}

// refreshViews: a string key made with an unsafe conversion is a view of bytes that the program may
// overwrite afterwards. Go does not notice; a small map (one bucket) then simply finds the entry
// under the new content. The canonical keys of such entries are recomputed from the current bytes.
func (m *omap) refreshViews(i *interpreter) {
	for _, e := range m.ents {
		sv, isView := e.k.(symstr)
		if !isView || !e.hasCK {
			continue
		}
		ck, ok := canonKey(m.kt, sv)
		if !ok || ck == e.ck {
			continue
		}
		oldCK := e.ck
		ownedOld := m.idx[oldCK] == e
		if ownedOld {
			delete(m.idx, oldCK)
		}
		e.ck = ck
		prev, hadPrev := m.idx[ck]
		if !hadPrev {
			m.idx[ck] = e
		}
		i.logUndo(func() {
			if !hadPrev {
				delete(m.idx, ck)
			} else {
				m.idx[ck] = prev
			}
			e.ck = oldCK
			if ownedOld {
				m.idx[oldCK] = e
			}
		})
	}
}

func (m *omap) find(fr *frame, k value) *ment {
	if m == nil {
		return nil
	}
	if m.nview > 0 {
		m.refreshViews(fr.i)
	}
	ck, ok := canonKey(m.kt, k)
	if ok && m.nsym == 0 {
		return m.idx[ck]
	}
	for _, e := range m.ents {
		if ok && e.hasCK {
			if e.ck == ck {
				return e
			}
			continue
		}
		c := fr.i.eqv(m.kt, k, e.k)
		if b, isb := c.(bool); isb {
			if b {
				return e
			}
			continue
		}
		if fr.decide(c.(*Term)) {
			return e
		}
	}
	return nil
}

func (m *omap) lookup(fr *frame, k value) (value, bool) {
	if e := m.find(fr, k); e != nil {
		return e.v, true
	}
	return nil, false
}

func (m *omap) insert(fr *frame, k, v value) {
	i := fr.i
	if e := m.find(fr, k); e != nil {
		i.wr(&e.v, v)
		// assigning through an existing string key also stores the new key's pointer
		// (runtime.mapassign_faststr: "k.str = key.str"): the entry now aliases the new key's bytes
		if sv, isView := k.(symstr); isView && e.hasCK {
			if _, concrete := goString(sv); concrete {
				oldK := e.k
				e.k = sv
				m.nview++
				i.logUndo(func() { e.k = oldK; m.nview-- })
			}
		}
		return
	}
	e := &ment{k: k, v: v}
	e.ck, e.hasCK = canonKey(m.kt, k)
	if _, isView := k.(symstr); isView && e.hasCK {
		m.nview++
		i.logUndo(func() { m.nview-- })
	}
	m.ents = append(m.ents, e)
	if e.hasCK {
		m.idx[e.ck] = e
	} else {
		m.nsym++
	}
	i.logUndo(func() {
		m.ents = m.ents[:len(m.ents)-1]
		if e.hasCK {
			delete(m.idx, e.ck)
		} else {
			m.nsym--
		}
	})
}

func (m *omap) delete(fr *frame, k value) {
	if m == nil {
		return
	}
	e := m.find(fr, k)
	if e == nil {
		return
	}
	m.remove(fr.i, e)
}

func (m *omap) remove(i *interpreter, e *ment) {
	pos := -1
	for j, x := range m.ents {
		if x == e {
			pos = j
			break
		}
	}
	if pos < 0 {
		return
	}
	old := m.ents
	ne := make([]*ment, 0, len(old)-1)
	ne = append(ne, old[:pos]...)
	ne = append(ne, old[pos+1:]...)
	m.ents = ne
	e.deleted = true
	if e.hasCK {
		delete(m.idx, e.ck)
	} else {
		m.nsym--
	}
	i.logUndo(func() {
		m.ents = old
		e.deleted = false
		if e.hasCK {
			m.idx[e.ck] = e
		} else {
			m.nsym++
		}
	})
}

func (m *omap) clear(i *interpreter) {
	if m == nil {
		return
	}
	for len(m.ents) > 0 {
		m.remove(i, m.ents[len(m.ents)-1])
	}
}

type omapIter struct {
	m       *omap
	rest    []*ment
	permute bool
}

func (it *omapIter) next(fr *frame) tuple {
	for len(it.rest) > 0 {
		k := 0
		if it.permute {
			// choose among the live remaining entries
			live := it.rest[:0:0]
			for _, e := range it.rest {
				if !e.deleted {
					live = append(live, e)
				}
			}
			it.rest = live
			if len(live) == 0 {
				break
			}
			if len(live) > 1 {
				k = fr.i.choice(len(live), "maprange")
			}
		}
		e := it.rest[k]
		it.rest = append(it.rest[:k:k], it.rest[k+1:]...)
		if e.deleted {
			continue
		}
		return tuple{true, e.k, e.v}
	}
	return tuple{false, nil, nil}
}
