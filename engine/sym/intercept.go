package sym

// Intercepted functions: assembly-backed / unsafe / runtime-dependent library functions are
// replaced by direct models. Every interception that is hit is counted and reported in evidence.

import (
	"fmt"
	"go/types"
	"math"
	"strings"
	"unsafe"

	"golang.org/x/tools/go/ssa"
)

type externalFn func(fr *frame, args []value) value

// Key strings are from Function.String().
var externals = make(map[string]externalFn)

// blockedPkgs are packages whose functions are never interpreted (reflection, OS, encoders).
var blockedPkgs = map[string]bool{
	"reflect": true, "internal/reflectlite": true, "syscall": true, "os": true, "os/exec": true, "os/signal": true,
	"encoding/json": true, "encoding/gob": true, "encoding/xml": true, "regexp": true, "regexp/syntax": true,
	"crypto/tls": true, "crypto/aes": true, "crypto/cipher": true, "crypto/rand": true, "math/rand": true, "math/rand/v2": true,
	"internal/poll": true, "runtime/debug": true, "testing": true, "internal/godebug": true,
	"github.com/fxamacker/cbor/v2": true, "github.com/gofiber/schema": true, "text/template": true, "html/template": true,
	"compress/gzip": true, "compress/flate": true, "compress/zlib": true, "github.com/andybalholm/brotli": true,
	"github.com/klauspost/compress/zstd": true, "github.com/klauspost/compress/gzip": true, "github.com/klauspost/compress/flate": true,
	"github.com/klauspost/compress/zlib": true,
}

func (i *interpreter) packageLevelIntercept(fn *ssa.Function, name string) externalFn {
	pkg := fn.Pkg
	if pkg == nil {
		if o := fn.Origin(); o != nil {
			pkg = o.Pkg
		}
	}
	if pkg == nil {
		if recv := fn.Signature.Recv(); recv != nil {
			// wrapper/thunk of a method: find the package of the receiver's named type
			t := recv.Type()
			if p, ok := t.(*types.Pointer); ok {
				t = p.Elem()
			}
			if n, ok := t.(*types.Named); ok && n.Obj().Pkg() != nil {
				if blockedPkgs[n.Obj().Pkg().Path()] {
					return func(fr *frame, args []value) value {
						panic(abort(abUnsupported, "call into blocked package: "+name))
					}
				}
			}
		}
		return nil
	}
	path := pkg.Pkg.Path()
	// harness primitives
	if i.targetPkgs[path] {
		if p := prims[fn.Name()]; p != nil {
			if f := i.prog.Fset.File(fn.Pos()); f != nil && strings.Contains(f.Name(), "zz_verif") {
				return p
			}
		}
	}
	if blockedPkgs[path] {
		return func(fr *frame, args []value) value {
			panic(abort(abUnsupported, "call into blocked package: "+name+" from "+fr.stackString(6)))
		}
	}
	if path == "log" || strings.HasSuffix(path, "fiber/v3/log") {
		return func(fr *frame, args []value) value {
			res := fn.Signature.Results()
			if res.Len() == 0 {
				return nil
			}
			return zeroResults(fn)
		}
	}
	return nil
}

func unsupported(name string) externalFn {
	return func(fr *frame, args []value) value {
		panic(abort(abUnsupported, "unsupported function: "+name))
	}
}

func byteCells(v value) []value {
	switch x := v.(type) {
	case []value:
		return x
	case string, symstr:
		return strCells(x)
	}
	panic(fmt.Sprintf("byteCells: %T", v))
}

// indexByte returns the first index of c in cells, forking on symbolic comparisons.
func (fr *frame) indexByte(cells []value, c value) int {
	i := fr.i
	for k, b := range cells {
		e := i.eqv(nil, b, c)
		if eb, ok := e.(bool); ok {
			if eb {
				return k
			}
			continue
		}
		fr.noteSym()
		if i.decide(e.(*Term)) {
			return k
		}
	}
	return -1
}

func (fr *frame) lastIndexByte(cells []value, c value) int {
	i := fr.i
	for k := len(cells) - 1; k >= 0; k-- {
		e := i.eqv(nil, cells[k], c)
		if eb, ok := e.(bool); ok {
			if eb {
				return k
			}
			continue
		}
		fr.noteSym()
		if i.decide(e.(*Term)) {
			return k
		}
	}
	return -1
}

// indexSub returns the first index of sep in s, forking on symbolic comparisons.
func (fr *frame) indexSub(s, sep []value) int {
	i := fr.i
	n := len(sep)
	if n == 0 {
		return 0
	}
	for k := 0; k+n <= len(s); k++ {
		var acc value = true
		for j := 0; j < n; j++ {
			acc = i.andv(acc, i.eqv(nil, s[k+j], sep[j]))
			if acc == false {
				break
			}
		}
		if ab, ok := acc.(bool); ok {
			if ab {
				return k
			}
			continue
		}
		fr.noteSym()
		if i.decide(acc.(*Term)) {
			return k
		}
	}
	return -1
}

func (fr *frame) countByte(cells []value, c value) value {
	i := fr.i
	var n value = int(0)
	for _, b := range cells {
		e := i.eqv(nil, b, c)
		if eb, ok := e.(bool); ok {
			if eb {
				n = i.binop(tokADD, types.Typ[types.Int], n, int(1))
			}
			continue
		}
		fr.noteSym()
		one := i.tt.Ite(e.(*Term), i.tt.Const(64, 1), i.tt.Const(64, 0))
		n = norm(types.Int, i.tt.Bin(OpAdd, i.toTerm(n), one))
	}
	return n
}

// compareCells is a three-way lexicographic comparison (forks on symbolic bytes).
func (fr *frame) compareCells(a, b []value) int {
	i := fr.i
	n := len(a)
	if len(b) < n {
		n = len(b)
	}
	for k := 0; k < n; k++ {
		e := i.eqv(nil, a[k], b[k])
		eq := false
		if eb, ok := e.(bool); ok {
			eq = eb
		} else {
			eq = i.decide(e.(*Term))
		}
		if eq {
			continue
		}
		lt := i.binop(tokLSS, types.Typ[types.Uint8], a[k], b[k])
		l := false
		if lb, ok := lt.(bool); ok {
			l = lb
		} else {
			l = i.decide(lt.(*Term))
		}
		if l {
			return -1
		}
		return 1
	}
	switch {
	case len(a) < len(b):
		return -1
	case len(a) > len(b):
		return 1
	}
	return 0
}

func boolFork(fr *frame, v value) bool {
	if b, ok := v.(bool); ok {
		return b
	}
	fr.noteSym()
	return fr.i.decide(v.(*Term))
}

func init() {
	ext := func(name string, f externalFn) { externals[name] = f }

	// ---- internal/bytealg and friends
	ext("internal/bytealg.IndexByte", func(fr *frame, a []value) value { return fr.indexByte(byteCells(a[0]), a[1]) })
	ext("internal/bytealg.IndexByteString", func(fr *frame, a []value) value { return fr.indexByte(byteCells(a[0]), a[1]) })
	ext("internal/bytealg.LastIndexByte", func(fr *frame, a []value) value { return fr.lastIndexByte(byteCells(a[0]), a[1]) })
	ext("internal/bytealg.LastIndexByteString", func(fr *frame, a []value) value { return fr.lastIndexByte(byteCells(a[0]), a[1]) })
	ext("internal/bytealg.Index", func(fr *frame, a []value) value { return fr.indexSub(byteCells(a[0]), byteCells(a[1])) })
	ext("internal/bytealg.IndexString", func(fr *frame, a []value) value { return fr.indexSub(byteCells(a[0]), byteCells(a[1])) })
	ext("internal/bytealg.Count", func(fr *frame, a []value) value { return fr.countByte(byteCells(a[0]), a[1]) })
	ext("internal/bytealg.CountString", func(fr *frame, a []value) value { return fr.countByte(byteCells(a[0]), a[1]) })
	ext("internal/bytealg.Equal", func(fr *frame, a []value) value {
		return fr.i.eqStr(symstr{byteCells(a[0])}, symstr{byteCells(a[1])})
	})
	ext("internal/bytealg.Compare", func(fr *frame, a []value) value { return fr.compareCells(byteCells(a[0]), byteCells(a[1])) })
	ext("internal/bytealg.CompareString", func(fr *frame, a []value) value { return fr.compareCells(byteCells(a[0]), byteCells(a[1])) })
	ext("internal/bytealg.MakeNoZero", func(fr *frame, a []value) value {
		n := fr.concInt(a[0], types.Typ[types.Int], "MakeNoZero")
		s := make([]value, n)
		for k := range s {
			s[k] = uint8(0)
		}
		return s
	})
	ext("strings.Index", func(fr *frame, a []value) value { return fr.indexSub(byteCells(a[0]), byteCells(a[1])) })
	ext("bytes.Index", func(fr *frame, a []value) value { return fr.indexSub(byteCells(a[0]), byteCells(a[1])) })
	ext("strings.IndexByte", func(fr *frame, a []value) value { return fr.indexByte(byteCells(a[0]), a[1]) })
	ext("bytes.IndexByte", func(fr *frame, a []value) value { return fr.indexByte(byteCells(a[0]), a[1]) })
	ext("strings.LastIndexByte", func(fr *frame, a []value) value { return fr.lastIndexByte(byteCells(a[0]), a[1]) })
	ext("bytes.LastIndexByte", func(fr *frame, a []value) value { return fr.lastIndexByte(byteCells(a[0]), a[1]) })
	ext("bytes.Equal", func(fr *frame, a []value) value {
		return fr.i.eqStr(symstr{byteCells(a[0])}, symstr{byteCells(a[1])})
	})
	ext("strings.Clone", func(fr *frame, a []value) value { return mkStringCopy(strCells(a[0])) })
	ext("internal/stringslite.Clone", func(fr *frame, a []value) value { return mkStringCopy(strCells(a[0])) })
	ext("internal/abi.NoEscape", func(fr *frame, a []value) value { return a[0] })
	ext("internal/abi.Escape", func(fr *frame, a []value) value { return a[0] })
	ext("internal/abi.FuncPCABI0", func(fr *frame, a []value) value { return uintptr(0) })
	ext("internal/abi.FuncPCABIInternal", func(fr *frame, a []value) value { return uintptr(0) })

	// ---- gofiber/utils unsafe conversions, fasthttp b2s/s2b
	b2s := func(fr *frame, a []value) value {
		b := a[0].([]value)
		return symstr{b[:len(b):len(b)]}
	}
	s2b := func(fr *frame, a []value) value {
		c := strCells(a[0])
		if len(c) == 0 {
			return []value(nil)
		}
		return c
	}
	ext("github.com/gofiber/utils/v2.UnsafeString", b2s)
	ext("github.com/gofiber/utils/v2.UnsafeBytes", s2b)
	ext("github.com/valyala/fasthttp.b2s", b2s)
	ext("github.com/valyala/fasthttp.s2b", s2b)

	// ---- math
	ext("math.Float64bits", func(fr *frame, a []value) value { return math.Float64bits(a[0].(float64)) })
	ext("math.Float64frombits", func(fr *frame, a []value) value {
		return math.Float64frombits(uint64(fr.concInt(a[0], types.Typ[types.Uint64], "Float64frombits")))
	})
	ext("math.Float32bits", func(fr *frame, a []value) value { return math.Float32bits(a[0].(float32)) })
	ext("math.Float32frombits", func(fr *frame, a []value) value {
		return math.Float32frombits(uint32(fr.concInt(a[0], types.Typ[types.Uint32], "Float32frombits")))
	})
	f1 := func(f func(float64) float64) externalFn {
		return func(fr *frame, a []value) value { return f(a[0].(float64)) }
	}
	ext("math.Floor", f1(math.Floor))
	ext("math.Ceil", f1(math.Ceil))
	ext("math.Trunc", f1(math.Trunc))
	ext("math.Sqrt", f1(math.Sqrt))
	ext("math.Abs", f1(math.Abs))
	ext("math.Log", f1(math.Log))
	ext("math.Log2", f1(math.Log2))
	ext("math.Log10", f1(math.Log10))
	ext("math.Exp", f1(math.Exp))
	ext("math.Round", f1(math.Round))
	ext("math.Pow", func(fr *frame, a []value) value { return math.Pow(a[0].(float64), a[1].(float64)) })
	ext("math.Mod", func(fr *frame, a []value) value { return math.Mod(a[0].(float64), a[1].(float64)) })
	ext("math.Modf", func(fr *frame, a []value) value {
		x, y := math.Modf(a[0].(float64))
		return tuple{x, y}
	})
	ext("math.Frexp", func(fr *frame, a []value) value {
		x, y := math.Frexp(a[0].(float64))
		return tuple{x, y}
	})
	ext("math.Ldexp", func(fr *frame, a []value) value { return math.Ldexp(a[0].(float64), a[1].(int)) })
	ext("math.Inf", func(fr *frame, a []value) value { return math.Inf(a[0].(int)) })
	ext("math.NaN", func(fr *frame, a []value) value { return math.NaN() })
	ext("math.IsNaN", func(fr *frame, a []value) value { return math.IsNaN(a[0].(float64)) })
	ext("math.IsInf", func(fr *frame, a []value) value { return math.IsInf(a[0].(float64), a[1].(int)) })

	// ---- runtime & os odds and ends
	ext("runtime.GOMAXPROCS", func(fr *frame, a []value) value { return 16 })
	ext("runtime.NumCPU", func(fr *frame, a []value) value { return 16 })
	ext("runtime.NumGoroutine", func(fr *frame, a []value) value { return 1 })
	ext("runtime.Gosched", func(fr *frame, a []value) value { fr.i.yield("Gosched"); return nil })
	ext("runtime.KeepAlive", func(fr *frame, a []value) value { return nil })
	ext("runtime.SetFinalizer", func(fr *frame, a []value) value { return nil })
	ext("runtime.GC", func(fr *frame, a []value) value { return nil })
	ext("runtime.Caller", func(fr *frame, a []value) value { return tuple{uintptr(0), "", 0, false} })
	ext("runtime.Callers", func(fr *frame, a []value) value { return 0 })
	ext("runtime/debug.SetGCPercent", func(fr *frame, a []value) value { return int(100) })
	ext("os.Getenv", func(fr *frame, a []value) value { return "" })
	ext("os.LookupEnv", func(fr *frame, a []value) value { return tuple{"", false} })
	ext("os.Getpid", func(fr *frame, a []value) value { return 4242 })
	ext("os.Getppid", func(fr *frame, a []value) value { return 1 })
	ext("os.Hostname", func(fr *frame, a []value) value { return tuple{"host", iface{}} })
	ext("internal/godebug.New", func(fr *frame, a []value) value { return (*value)(nil) })
	ext("(*internal/godebug.Setting).Value", func(fr *frame, a []value) value { return "" })
	ext("(*internal/godebug.Setting).IncNonDefault", func(fr *frame, a []value) value { return nil })
	ext("(*internal/godebug.Setting).Name", func(fr *frame, a []value) value { return "" })

	// ---- errors (reflectlite-based)
	ext("errors.Is", extErrorsIs)
	ext("errors.As", extErrorsAs)

	// ---- fmt
	ext("fmt.Sprintf", extSprintf)
	ext("fmt.Errorf", extErrorf)
	ext("fmt.Sprint", extSprint)
	ext("fmt.Sprintln", extSprint)
	ext("fmt.Fprintf", extFprintf)
	ext("fmt.Fprint", extFprint)
	ext("fmt.Fprintln", extFprint)
	ext("fmt.Printf", func(fr *frame, a []value) value { return tuple{0, iface{}} })
	ext("fmt.Println", func(fr *frame, a []value) value { return tuple{0, iface{}} })
	ext("fmt.Print", func(fr *frame, a []value) value { return tuple{0, iface{}} })
}

var _ = unsafe.Pointer(nil)
