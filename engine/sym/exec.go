package sym

// Path state: decisions, path condition, solver interaction.

import (
	"fmt"
	"sort"
	"strings"
)

type abortKind int

const (
	abInfeasible  abortKind = iota // assumption unsatisfiable: path silently dropped
	abUnsupported                  // engine cannot model something: inconclusive
	abBudget                       // step budget exceeded: inconclusive
	abUnknown                      // solver unknown on an obligation: inconclusive
	abDone                         // harness asked to stop the path (vStop)
	abViolation                    // stop path after a violation was recorded
	abExit                         // thread termination
)

type pathAbort struct {
	kind abortKind
	msg  string
}

func abort(k abortKind, msg string) pathAbort { return pathAbort{k, msg} }

func (p pathAbort) String() string {
	return fmt.Sprintf("%s: %s", [...]string{"infeasible", "unsupported", "budget", "unknown", "done", "violation", "exit"}[p.kind], p.msg)
}

// Decision is one recorded nondeterministic step of a path.
type Decision struct {
	K byte   // 'b' branch, 'c' concretise, 'k' choice
	N uint64 // side / value / index
}

func (d Decision) String() string { return fmt.Sprintf("%c%d", d.K, d.N) }

func decisionsString(ds []Decision) string {
	var sb strings.Builder
	for _, d := range ds {
		sb.WriteString(d.String())
		sb.WriteByte(' ')
	}
	return sb.String()
}

// WorkItem is a path prefix still to be explored.
type WorkItem struct {
	Prefix []Decision
	Model  Model // satisfies the path condition of Prefix (may be nil: needs a check)
}

// Input is a named symbolic input created by a harness primitive.
type Input struct {
	Name string
	W    uint8
}

// Violation is a failed assertion with a model.
type Violation struct {
	Tag    string
	Msg    string
	Known  string // id of the known-finding predicate it falls under ("" = new)
	Model  Model
	Inputs []Input
	Trace  []Decision
	Obs    []string
	Named  map[string]uint64
	Sched  []int
}

type pathState struct {
	prefix  []Decision
	pos     int
	trace   []Decision
	pc      []*Term
	model   Model
	inputs  []Input
	invars  map[string]uint8
	pending []WorkItem
	steps   int64
	reach   map[string]bool
	obs     []string
	known   []knownPred // active known-finding predicates on this path
	viols   []Violation
	incon   []string // inconclusive reasons
	nDec    int      // solver-checked decisions
	asserts int
	clock   value // virtual clock (ns), int64 or *Term
	pools   map[value][]value
	nfresh  int
	allocB  int64 // allocation budget (bytes); <0 = off
	allocU  int64
	needModel bool
	permute bool // explore map iteration orders in target packages
	extra   map[string]interface{}
	locks   map[value]*lockState
	named   map[string]uint64
	stubs   map[string]bool
	pcSet   map[*Term]bool
	pinned  map[string]uint64
	nQuick  int
	yieldLog []int
	clockEpoch int
	poolChoice bool
	poolReuse  int
}

type knownPred struct {
	id   string
	cond *Term // nil = true
}

func (i *interpreter) newPath(w WorkItem) *pathState {
	ps := &pathState{prefix: w.Prefix, model: w.Model, invars: map[string]uint8{}, reach: map[string]bool{},
		pools: map[value][]value{}, allocB: -1, extra: map[string]interface{}{}, named: map[string]uint64{}, stubs: map[string]bool{}, pcSet: map[*Term]bool{}, pinned: map[string]uint64{}}
	if ps.model == nil {
		ps.model = Model{}
		ps.needModel = len(w.Prefix) > 0
	}
	ps.clock = int64(1_700_000_000) // seconds since the Unix epoch
	return ps
}

// addPC records a constraint that is known to hold under the current model or prefix.
func (i *interpreter) addPC(c *Term) {
	if c.Op == OpConst {
		return
	}
	i.ps.pc = append(i.ps.pc, c)
	i.ps.pcSet[c] = true
	i.notePinned(c)
	i.solver.Assert(c)
}

// notePinned records variables pinned to constants by the path condition (v == k, conjunctions).
func (i *interpreter) notePinned(c *Term) {
	switch c.Op {
	case OpAnd:
		i.notePinned(c.A)
		i.notePinned(c.B)
	case OpEq:
		if c.A.Op == OpVar && c.B.Op == OpConst {
			i.ps.pinned[c.A.Name] = c.B.Val
		} else if c.B.Op == OpVar && c.A.Op == OpConst {
			i.ps.pinned[c.B.Name] = c.A.Val
		}
	case OpVar:
		if c.W == 0 {
			i.ps.pinned[c.Name] = 1
		}
	case OpNot:
		if c.A.Op == OpVar {
			i.ps.pinned[c.A.Name] = 0
		}
	}
}

// quickDecide tries to settle c from the path condition without the solver.
func (i *interpreter) quickDecide(c *Term) (val bool, ok bool) {
	ps := i.ps
	if ps.pcSet[c] {
		return true, true
	}
	if ps.pcSet[i.tt.Not(c)] {
		return false, true
	}
	if len(ps.pinned) > 0 {
		if v, known := i.evalPartial(c, map[*Term]pval{}); known {
			return v != 0, true
		}
	}
	return false, false
}

type pval struct {
	v  uint64
	ok bool
}

// evalPartial evaluates t using only pinned variables; ok=false if an unpinned variable matters.
func (i *interpreter) evalPartial(t *Term, memo map[*Term]pval) (uint64, bool) {
	if t.Op == OpConst {
		return t.Val, true
	}
	if r, ok := memo[t]; ok {
		return r.v, r.ok
	}
	var v uint64
	ok := false
	switch t.Op {
	case OpVar:
		v, ok = i.ps.pinned[t.Name]
	case OpAnd:
		a, aok := i.evalPartial(t.A, memo)
		b, bok := i.evalPartial(t.B, memo)
		switch {
		case aok && a == 0, bok && b == 0:
			v, ok = 0, true
		case aok && bok:
			v, ok = 1, true
		}
	case OpOr:
		a, aok := i.evalPartial(t.A, memo)
		b, bok := i.evalPartial(t.B, memo)
		switch {
		case aok && a != 0, bok && b != 0:
			v, ok = 1, true
		case aok && bok:
			v, ok = 0, true
		}
	case OpIte:
		c, cok := i.evalPartial(t.A, memo)
		if cok {
			if c != 0 {
				v, ok = i.evalPartial(t.B, memo)
			} else {
				v, ok = i.evalPartial(t.C, memo)
			}
		} else {
			a, aok := i.evalPartial(t.B, memo)
			b, bok := i.evalPartial(t.C, memo)
			if aok && bok && a == b {
				v, ok = a, true
			}
		}
	case OpNot:
		a, aok := i.evalPartial(t.A, memo)
		v, ok = 1-a, aok
	case OpBNot:
		a, aok := i.evalPartial(t.A, memo)
		v, ok = ^a&mask(t.W), aok
	case OpNeg:
		a, aok := i.evalPartial(t.A, memo)
		v, ok = -a&mask(t.W), aok
	case OpZExt:
		v, ok = i.evalPartial(t.A, memo)
	case OpSExt:
		a, aok := i.evalPartial(t.A, memo)
		v, ok = uint64(sext(a, t.A.W))&mask(t.W), aok
	case OpExtract:
		a, aok := i.evalPartial(t.A, memo)
		v, ok = (a>>t.Val)&mask(t.W), aok
	case OpEq:
		a, aok := i.evalPartial(t.A, memo)
		b, bok := i.evalPartial(t.B, memo)
		if aok && bok {
			v, ok = b2u(a == b), true
		}
	default:
		a, aok := i.evalPartial(t.A, memo)
		b, bok := i.evalPartial(t.B, memo)
		if aok && bok {
			v, ok = evalBin(t.Op, t.A.W, a, b), true
		}
	}
	memo[t] = pval{v, ok}
	return v, ok
}

func (i *interpreter) evalModel(t *Term) uint64 {
	if i.ps.needModel && i.ps.pos >= len(i.ps.prefix) {
		i.ps.needModel = false
		if !i.refreshModel() {
			panic(abort(abInfeasible, "prefix infeasible"))
		}
	}
	return i.tt.Eval(t, i.ps.model, map[*Term]uint64{})
}

// refreshModel makes sure ps.model satisfies the PC (used after following a prefix without model).
func (i *interpreter) refreshModel() bool {
	r, err := i.solver.Check()
	if err != nil || r == Unknown {
		panic(abort(abUnknown, fmt.Sprintf("solver unknown on path condition: %v", err)))
	}
	if r == Unsat {
		return false
	}
	m, err := i.solver.GetModel(i.ps.invars)
	if err != nil {
		panic(abort(abUnknown, "get-model: "+err.Error()))
	}
	i.ps.model = m
	return true
}

func (fr *frame) decide(c *Term) bool { return fr.i.decide(c) }

// decide resolves a symbolic condition into a concrete branch, forking the other side.
func (i *interpreter) decide(c *Term) bool {
	if c.Op == OpConst {
		return c.Val != 0
	}
	ps := i.ps
	if v, ok := i.quickDecide(c); ok {
		ps.nQuick++
		return v
	}
	if ps.pos < len(ps.prefix) {
		d := ps.prefix[ps.pos]
		if d.K != 'b' {
			panic(fmt.Sprintf("replay divergence at decision %d: expected %v, got branch (trace %s)", ps.pos, d, decisionsString(ps.prefix)))
		}
		ps.pos++
		ps.trace = append(ps.trace, d)
		side := d.N != 0
		if side {
			i.addPC(c)
		} else {
			i.addPC(i.tt.Not(c))
		}
		return side
	}
	if i.curFn != nil {
		i.decSites[i.curFn.String()]++
	}
	side := i.evalModel(c) != 0
	var other *Term
	if side {
		other = i.tt.Not(c)
	} else {
		other = c
	}
	ps.nDec++
	r, m, err := i.solver.CheckWith(other, ps.invars)
	if err != nil {
		r = Unknown
	}
	switch r {
	case Sat:
		alt := append(append([]Decision{}, ps.trace...), Decision{'b', b2u(!side)})
		ps.pending = append(ps.pending, WorkItem{Prefix: alt, Model: m})
	case Unknown:
		// keep both sides: sound for "holds"; the child re-checks its PC
		alt := append(append([]Decision{}, ps.trace...), Decision{'b', b2u(!side)})
		ps.pending = append(ps.pending, WorkItem{Prefix: alt, Model: nil})
	}
	ps.trace = append(ps.trace, Decision{'b', b2u(side)})
	if side {
		i.addPC(c)
	} else {
		i.addPC(i.tt.Not(c))
	}
	return side
}

// assume restricts the path to cond.
func (i *interpreter) assume(c *Term) {
	if c.Op == OpConst {
		if c.Val == 0 {
			panic(abort(abInfeasible, "assume(false)"))
		}
		return
	}
	ps := i.ps
	if ps.pos >= len(ps.prefix) || true {
		// model may not satisfy c: find one that does
		if i.evalModel(c) == 0 {
			i.solver.Push()
			i.solver.Assert(c)
			r, err := i.solver.Check()
			var m Model
			if err == nil && r == Sat {
				m, err = i.solver.GetModel(ps.invars)
			}
			i.solver.Pop()
			if err != nil || r == Unknown {
				panic(abort(abUnknown, "solver unknown on assumption"))
			}
			if r == Unsat {
				panic(abort(abInfeasible, "assumption infeasible"))
			}
			ps.model = m
		}
	}
	i.addPC(c)
}

const maxSplit = 64

// concretize turns a symbolic integer into a concrete value, forking over all feasible values.
func (i *interpreter) concretize(t *Term, why string) uint64 {
	if t.Op == OpConst {
		return t.Val
	}
	ps := i.ps
	if ps.pos < len(ps.prefix) {
		d := ps.prefix[ps.pos]
		if d.K != 'c' {
			panic(fmt.Sprintf("replay divergence at decision %d: expected %v, got concretise(%s)", ps.pos, d, why))
		}
		ps.pos++
		ps.trace = append(ps.trace, d)
		i.addPC(i.tt.Eq(t, i.tt.Const(t.W, d.N)))
		return d.N
	}
	if i.curFn != nil {
		i.decSites["concretize:"+why+"@"+i.curFn.String()]++
	}
	v0 := i.evalModel(t)
	// enumerate the other feasible values
	i.solver.Push()
	i.solver.Assert(i.tt.Not(i.tt.Eq(t, i.tt.Const(t.W, v0))))
	n := 0
	for {
		ps.nDec++
		r, err := i.solver.Check()
		if err != nil || r == Unknown {
			i.solver.Pop()
			panic(abort(abUnknown, "solver unknown while concretising "+why))
		}
		if r == Unsat {
			break
		}
		m, err := i.solver.GetModel(ps.invars)
		if err != nil {
			i.solver.Pop()
			panic(abort(abUnknown, "get-model: "+err.Error()))
		}
		v := i.tt.Eval(t, m, map[*Term]uint64{})
		n++
		if n > maxSplit {
			i.solver.Pop()
			where := ""
			if i.curFn != nil {
				where = " in " + i.curFn.String()
			}
			panic(abort(abUnsupported, fmt.Sprintf("concretise(%s): more than %d feasible values%s", why, maxSplit, where)))
		}
		alt := append(append([]Decision{}, ps.trace...), Decision{'c', v})
		ps.pending = append(ps.pending, WorkItem{Prefix: alt, Model: m})
		i.solver.Assert(i.tt.Not(i.tt.Eq(t, i.tt.Const(t.W, v))))
	}
	i.solver.Pop()
	ps.trace = append(ps.trace, Decision{'c', v0})
	i.addPC(i.tt.Eq(t, i.tt.Const(t.W, v0)))
	return v0
}

// choice is a nondeterministic choice among n alternatives (no symbolic condition).
func (i *interpreter) choice(n int, why string) int {
	if n <= 1 {
		return 0
	}
	ps := i.ps
	if ps.pos < len(ps.prefix) {
		d := ps.prefix[ps.pos]
		if d.K != 'k' {
			panic(fmt.Sprintf("replay divergence at decision %d: expected %v, got choice(%s)", ps.pos, d, why))
		}
		ps.pos++
		ps.trace = append(ps.trace, d)
		return int(d.N)
	}
	i.decSites["choice:"+why]++
	for k := 1; k < n; k++ {
		alt := append(append([]Decision{}, ps.trace...), Decision{'k', uint64(k)})
		ps.pending = append(ps.pending, WorkItem{Prefix: alt, Model: ps.model})
	}
	ps.trace = append(ps.trace, Decision{'k', 0})
	return 0
}

// newInput creates a fresh named symbolic variable.
func (i *interpreter) newInput(name string, w uint8) *Term {
	ps := i.ps
	if _, dup := ps.invars[name]; dup {
		// make unique
		base := name
		for k := 2; ; k++ {
			name = fmt.Sprintf("%s#%d", base, k)
			if _, d := ps.invars[name]; !d {
				break
			}
		}
	}
	ps.invars[name] = w
	ps.inputs = append(ps.inputs, Input{name, w})
	return i.tt.Var(name, w)
}

// checkAssert discharges an assertion: PC ∧ ¬cond must be unsat.
func (i *interpreter) checkAssert(cond value, tag string) {
	ps := i.ps
	ps.asserts++
	var c *Term
	switch x := cond.(type) {
	case bool:
		if x {
			return
		}
		c = i.tt.False
	case *Term:
		c = x
	}
	neg := i.tt.Not(c)
	// split by known-finding predicates: first look for a violation outside all of them
	var outside *Term = neg
	for _, k := range ps.known {
		if k.cond == nil {
			outside = i.tt.False
		} else {
			outside = i.tt.And(outside, i.tt.Not(k.cond))
		}
	}
	report := func(q *Term, known string) bool {
		if q.Op == OpConst && q.Val == 0 {
			return false
		}
		var r Result
		var m Model
		var err error
		if q.Op == OpConst {
			r, m, err = Sat, ps.model, nil
		} else {
			r, m, err = i.solver.CheckWith(q, ps.invars)
		}
		if err != nil || r == Unknown {
			ps.incon = append(ps.incon, fmt.Sprintf("solver unknown on assertion %q: %v", tag, err))
			return false
		}
		if r == Unsat {
			return false
		}
		ps.viols = append(ps.viols, Violation{Tag: tag, Known: known, Model: m, Inputs: append([]Input{}, ps.inputs...),
			Trace: append([]Decision{}, ps.trace...), Obs: append([]string{}, ps.obs...), Named: copyNamed(ps.named), Sched: append([]int{}, ps.yieldLog...)})
		return true
	}
	report(outside, "")
	for _, k := range ps.known {
		q := neg
		if k.cond != nil {
			q = i.tt.And(neg, k.cond)
		}
		report(q, k.id)
	}
	// continue under the assumption that the assertion holds (if feasible)
	if c.Op == OpConst {
		if outside.Op == OpConst && outside.Val == 0 {
			// the failure is wholly inside a known finding: keep exploring the rest of the history,
			// otherwise the known finding would hide every later violation on this path
			return
		}
		panic(abort(abViolation, "assertion failed concretely: "+tag))
	}
	if i.evalModel(c) == 0 {
		r, m, err := i.solver.CheckWith(c, ps.invars)
		if err != nil || r == Unknown {
			panic(abort(abUnknown, "solver unknown after assertion"))
		}
		if r == Unsat {
			panic(abort(abViolation, "assertion fails on every input of this path: "+tag))
		}
		ps.model = m
	}
	i.addPC(c)
}

func sortedKeys(m map[string]bool) []string {
	var ks []string
	for k := range m {
		ks = append(ks, k)
	}
	sort.Strings(ks)
	return ks
}
