package sym

// Hash-consed SMT terms (booleans and bit-vectors up to 64 bits) with a small
// simplifier, an SMT-LIB2 printer and an evaluator under a model.

import (
	"fmt"
	"math/bits"
	"strings"
)

type Op uint8

const (
	OpConst Op = iota
	OpVar
	OpNot
	OpAnd
	OpOr
	OpEq
	OpIte
	OpAdd
	OpSub
	OpMul
	OpUDiv
	OpSDiv
	OpURem
	OpSRem
	OpBAnd
	OpBOr
	OpBXor
	OpBNot
	OpNeg
	OpShl
	OpLShr
	OpAShr
	OpULt
	OpULe
	OpSLt
	OpSLe
	OpZExt
	OpSExt
	OpExtract // val = lo, w = result width
)

var opNames = [...]string{"const", "var", "not", "and", "or", "=", "ite", "bvadd", "bvsub", "bvmul", "bvudiv", "bvsdiv", "bvurem", "bvsrem",
	"bvand", "bvor", "bvxor", "bvnot", "bvneg", "bvshl", "bvlshr", "bvashr", "bvult", "bvule", "bvslt", "bvsle", "zext", "sext", "extract"}

// Term is an immutable DAG node. W==0 means Bool, otherwise a bit-vector of W bits.
type Term struct {
	Op      Op
	W       uint8
	A, B, C *Term
	Val     uint64
	Name    string
	id      int
}

func (t *Term) IsConst() bool { return t.Op == OpConst }
func (t *Term) IsBool() bool  { return t.W == 0 }

type termKey struct {
	op      Op
	w       uint8
	a, b, c int
	val     uint64
	name    string
}

// TermTable hash-conses terms; one per worker.
type TermTable struct {
	tab   map[termKey]*Term
	next  int
	True  *Term
	False *Term
}

func NewTermTable() *TermTable {
	tt := &TermTable{tab: make(map[termKey]*Term)}
	tt.True = tt.mk(OpConst, 0, nil, nil, nil, 1, "")
	tt.False = tt.mk(OpConst, 0, nil, nil, nil, 0, "")
	return tt
}

func tid(t *Term) int {
	if t == nil {
		return -1
	}
	return t.id
}

func (tt *TermTable) mk(op Op, w uint8, a, b, c *Term, val uint64, name string) *Term {
	k := termKey{op, w, tid(a), tid(b), tid(c), val, name}
	if t, ok := tt.tab[k]; ok {
		return t
	}
	t := &Term{Op: op, W: w, A: a, B: b, C: c, Val: val, Name: name, id: tt.next}
	tt.next++
	tt.tab[k] = t
	return t
}

func mask(w uint8) uint64 {
	if w >= 64 {
		return ^uint64(0)
	}
	return (uint64(1) << w) - 1
}

func sext(v uint64, w uint8) int64 {
	if w >= 64 {
		return int64(v)
	}
	sh := 64 - uint(w)
	return int64(v<<sh) >> sh
}

func (tt *TermTable) Const(w uint8, v uint64) *Term {
	if w == 0 {
		if v != 0 {
			return tt.True
		}
		return tt.False
	}
	return tt.mk(OpConst, w, nil, nil, nil, v&mask(w), "")
}

func (tt *TermTable) Bool(b bool) *Term {
	if b {
		return tt.True
	}
	return tt.False
}

func (tt *TermTable) Var(name string, w uint8) *Term {
	return tt.mk(OpVar, w, nil, nil, nil, 0, name)
}

func (tt *TermTable) Not(a *Term) *Term {
	if a.Op == OpConst {
		return tt.Bool(a.Val == 0)
	}
	if a.Op == OpNot {
		return a.A
	}
	return tt.mk(OpNot, 0, a, nil, nil, 0, "")
}

func (tt *TermTable) And(a, b *Term) *Term {
	if a.Op == OpConst {
		if a.Val == 0 {
			return tt.False
		}
		return b
	}
	if b.Op == OpConst {
		if b.Val == 0 {
			return tt.False
		}
		return a
	}
	if a == b {
		return a
	}
	if a.id > b.id {
		a, b = b, a
	}
	return tt.mk(OpAnd, 0, a, b, nil, 0, "")
}

func (tt *TermTable) Or(a, b *Term) *Term {
	if a.Op == OpConst {
		if a.Val != 0 {
			return tt.True
		}
		return b
	}
	if b.Op == OpConst {
		if b.Val != 0 {
			return tt.True
		}
		return a
	}
	if a == b {
		return a
	}
	if a.id > b.id {
		a, b = b, a
	}
	return tt.mk(OpOr, 0, a, b, nil, 0, "")
}

func (tt *TermTable) Eq(a, b *Term) *Term {
	if a.W != b.W {
		panic(fmt.Sprintf("Eq: width mismatch %d vs %d", a.W, b.W))
	}
	if a == b {
		return tt.True
	}
	if a.Op == OpConst && b.Op == OpConst {
		return tt.Bool(a.Val == b.Val)
	}
	if a.W == 0 {
		if a.Op == OpConst {
			if a.Val != 0 {
				return b
			}
			return tt.Not(b)
		}
		if b.Op == OpConst {
			if b.Val != 0 {
				return a
			}
			return tt.Not(a)
		}
	}
	// (ite c k1 k2) == k  with constants
	if b.Op == OpConst && a.Op == OpIte {
		return tt.eqIteConst(a, b)
	}
	if a.Op == OpConst && b.Op == OpIte {
		return tt.eqIteConst(b, a)
	}
	// zext(x) == const
	if b.Op == OpConst && a.Op == OpZExt {
		if b.Val > mask(a.A.W) {
			return tt.False
		}
		return tt.Eq(a.A, tt.Const(a.A.W, b.Val))
	}
	if a.Op == OpConst && b.Op == OpZExt {
		return tt.Eq(b, a)
	}
	if a.id > b.id {
		a, b = b, a
	}
	return tt.mk(OpEq, 0, a, b, nil, 0, "")
}

func (tt *TermTable) eqIteConst(ite, k *Term) *Term {
	// simplify only pure chains ite(c1,k1,ite(c2,k2,...kn)) of constants
	depth := 0
	x := ite
	for x.Op == OpIte {
		if x.B.Op != OpConst {
			return tt.mkEq(ite, k)
		}
		depth++
		if depth > 300 {
			return tt.mkEq(ite, k)
		}
		x = x.C
	}
	if x.Op != OpConst {
		return tt.mkEq(ite, k)
	}
	var build func(x *Term) *Term
	build = func(x *Term) *Term {
		if x.Op == OpConst {
			return tt.Bool(x.Val == k.Val)
		}
		return tt.Ite(x.A, tt.Bool(x.B.Val == k.Val), build(x.C))
	}
	return build(ite)
}

func (tt *TermTable) mkEq(a, b *Term) *Term {
	if a.id > b.id {
		a, b = b, a
	}
	return tt.mk(OpEq, 0, a, b, nil, 0, "")
}

func (tt *TermTable) Ite(c, a, b *Term) *Term {
	if a.W != b.W {
		panic("Ite: width mismatch")
	}
	if c.Op == OpConst {
		if c.Val != 0 {
			return a
		}
		return b
	}
	if a == b {
		return a
	}
	if a.W == 0 {
		if a.Op == OpConst && b.Op == OpConst {
			if a.Val != 0 {
				return c
			}
			return tt.Not(c)
		}
		if a.Op == OpConst {
			if a.Val != 0 {
				return tt.Or(c, b)
			}
			return tt.And(tt.Not(c), b)
		}
		if b.Op == OpConst {
			if b.Val != 0 {
				return tt.Or(tt.Not(c), a)
			}
			return tt.And(c, a)
		}
	}
	return tt.mk(OpIte, a.W, c, a, b, 0, "")
}

func evalBin(op Op, w uint8, x, y uint64) uint64 {
	m := mask(w)
	switch op {
	case OpAdd:
		return (x + y) & m
	case OpSub:
		return (x - y) & m
	case OpMul:
		return (x * y) & m
	case OpUDiv:
		if y == 0 {
			return m
		}
		return x / y
	case OpURem:
		if y == 0 {
			return x
		}
		return x % y
	case OpSDiv:
		sx, sy := sext(x, w), sext(y, w)
		if sy == 0 {
			if sx < 0 {
				return 1
			}
			return m
		}
		if sy == -1 {
			return uint64(-sx) & m
		}
		return uint64(sx/sy) & m
	case OpSRem:
		sx, sy := sext(x, w), sext(y, w)
		if sy == 0 {
			return x
		}
		if sy == -1 {
			return 0
		}
		return uint64(sx%sy) & m
	case OpBAnd:
		return x & y
	case OpBOr:
		return x | y
	case OpBXor:
		return x ^ y
	case OpShl:
		if y >= uint64(w) {
			return 0
		}
		return (x << y) & m
	case OpLShr:
		if y >= uint64(w) {
			return 0
		}
		return x >> y
	case OpAShr:
		sx := sext(x, w)
		if y >= uint64(w) {
			y = uint64(w) - 1
		}
		return uint64(sx>>y) & m
	case OpULt:
		return b2u(x < y)
	case OpULe:
		return b2u(x <= y)
	case OpSLt:
		return b2u(sext(x, w) < sext(y, w))
	case OpSLe:
		return b2u(sext(x, w) <= sext(y, w))
	}
	panic("evalBin: bad op")
}

func b2u(b bool) uint64 {
	if b {
		return 1
	}
	return 0
}

// Bin builds a binary bit-vector operation (arithmetic result width = operand width).
func (tt *TermTable) Bin(op Op, a, b *Term) *Term {
	if a.W != b.W {
		panic(fmt.Sprintf("Bin %s: width mismatch %d vs %d", opNames[op], a.W, b.W))
	}
	w := a.W
	cmp := op == OpULt || op == OpULe || op == OpSLt || op == OpSLe
	if a.Op == OpConst && b.Op == OpConst {
		v := evalBin(op, w, a.Val, b.Val)
		if cmp {
			return tt.Bool(v != 0)
		}
		return tt.Const(w, v)
	}
	switch op {
	case OpAdd, OpBOr, OpBXor:
		if b.Op == OpConst && b.Val == 0 {
			return a
		}
		if a.Op == OpConst && a.Val == 0 {
			return b
		}
	case OpSub, OpShl, OpLShr, OpAShr:
		if b.Op == OpConst && b.Val == 0 {
			return a
		}
	case OpMul:
		if b.Op == OpConst && b.Val == 1 {
			return a
		}
		if a.Op == OpConst && a.Val == 1 {
			return b
		}
		if (b.Op == OpConst && b.Val == 0) || (a.Op == OpConst && a.Val == 0) {
			return tt.Const(w, 0)
		}
	case OpBAnd:
		if b.Op == OpConst && b.Val == mask(w) {
			return a
		}
		if a.Op == OpConst && a.Val == mask(w) {
			return b
		}
		if (b.Op == OpConst && b.Val == 0) || (a.Op == OpConst && a.Val == 0) {
			return tt.Const(w, 0)
		}
	case OpULt:
		if b.Op == OpConst && b.Val == 0 {
			return tt.False
		}
		// zext(x) < const where const > max(x)
		if b.Op == OpConst && a.Op == OpZExt && b.Val > mask(a.A.W) {
			return tt.True
		}
		if a == b {
			return tt.False
		}
	case OpULe:
		if a.Op == OpConst && a.Val == 0 {
			return tt.True
		}
		if b.Op == OpConst && a.Op == OpZExt && b.Val >= mask(a.A.W) {
			return tt.True
		}
		if a == b {
			return tt.True
		}
	case OpSLt:
		if a == b {
			return tt.False
		}
		// zext(x) with spare sign bit vs constants
		if a.Op == OpZExt && a.A.W < w && b.Op == OpConst {
			sb := sext(b.Val, w)
			if sb <= 0 {
				return tt.False
			}
			if uint64(sb) > mask(a.A.W) {
				return tt.True
			}
		}
		if b.Op == OpZExt && b.A.W < w && a.Op == OpConst {
			sa := sext(a.Val, w)
			if sa < 0 {
				return tt.True
			}
			if uint64(sa) >= mask(b.A.W) {
				return tt.False
			}
		}
	case OpSLe:
		if a == b {
			return tt.True
		}
		if a.Op == OpZExt && a.A.W < w && b.Op == OpConst {
			sb := sext(b.Val, w)
			if sb < 0 {
				return tt.False
			}
			if uint64(sb) >= mask(a.A.W) {
				return tt.True
			}
		}
		if b.Op == OpZExt && b.A.W < w && a.Op == OpConst {
			sa := sext(a.Val, w)
			if sa <= 0 {
				return tt.True
			}
			if uint64(sa) > mask(b.A.W) {
				return tt.False
			}
		}
	}
	rw := w
	if cmp {
		rw = 0
	}
	return tt.mk(op, rw, a, b, nil, 0, "")
}

func (tt *TermTable) BNot(a *Term) *Term {
	if a.Op == OpConst {
		return tt.Const(a.W, ^a.Val)
	}
	return tt.mk(OpBNot, a.W, a, nil, nil, 0, "")
}

func (tt *TermTable) Neg(a *Term) *Term {
	if a.Op == OpConst {
		return tt.Const(a.W, -a.Val)
	}
	return tt.mk(OpNeg, a.W, a, nil, nil, 0, "")
}

func (tt *TermTable) ZExt(a *Term, w uint8) *Term {
	if a.W == w {
		return a
	}
	if a.W > w {
		return tt.Extract(a, 0, w)
	}
	if a.Op == OpConst {
		return tt.Const(w, a.Val)
	}
	if a.Op == OpZExt {
		return tt.ZExt(a.A, w)
	}
	return tt.mk(OpZExt, w, a, nil, nil, 0, "")
}

func (tt *TermTable) SExt(a *Term, w uint8) *Term {
	if a.W == w {
		return a
	}
	if a.W > w {
		return tt.Extract(a, 0, w)
	}
	if a.Op == OpConst {
		return tt.Const(w, uint64(sext(a.Val, a.W)))
	}
	if a.Op == OpZExt { // sign bit known zero
		return tt.ZExt(a.A, w)
	}
	return tt.mk(OpSExt, w, a, nil, nil, 0, "")
}

// Extract returns bits [lo, lo+w) of a.
func (tt *TermTable) Extract(a *Term, lo uint8, w uint8) *Term {
	if lo == 0 && w == a.W {
		return a
	}
	if a.Op == OpConst {
		return tt.Const(w, a.Val>>lo)
	}
	if lo == 0 && (a.Op == OpZExt || a.Op == OpSExt) {
		if a.A.W == w {
			return a.A
		}
		if a.A.W > w {
			return tt.Extract(a.A, 0, w)
		}
		if a.Op == OpZExt {
			return tt.ZExt(a.A, w)
		}
		return tt.SExt(a.A, w)
	}
	return tt.mk(OpExtract, w, a, nil, nil, uint64(lo), "")
}

// ---------------------------------------------------------------------------
// Evaluation under a model

type Model map[string]uint64

func (tt *TermTable) Eval(t *Term, m Model, memo map[*Term]uint64) uint64 {
	if t.Op == OpConst {
		return t.Val
	}
	if v, ok := memo[t]; ok {
		return v
	}
	var v uint64
	switch t.Op {
	case OpVar:
		v = m[t.Name] & maskB(t.W)
	case OpNot:
		v = 1 - tt.Eval(t.A, m, memo)
	case OpAnd:
		v = tt.Eval(t.A, m, memo) & tt.Eval(t.B, m, memo)
	case OpOr:
		v = tt.Eval(t.A, m, memo) | tt.Eval(t.B, m, memo)
	case OpEq:
		v = b2u(tt.Eval(t.A, m, memo) == tt.Eval(t.B, m, memo))
	case OpIte:
		if tt.Eval(t.A, m, memo) != 0 {
			v = tt.Eval(t.B, m, memo)
		} else {
			v = tt.Eval(t.C, m, memo)
		}
	case OpBNot:
		v = ^tt.Eval(t.A, m, memo) & mask(t.W)
	case OpNeg:
		v = -tt.Eval(t.A, m, memo) & mask(t.W)
	case OpZExt:
		v = tt.Eval(t.A, m, memo)
	case OpSExt:
		v = uint64(sext(tt.Eval(t.A, m, memo), t.A.W)) & mask(t.W)
	case OpExtract:
		v = (tt.Eval(t.A, m, memo) >> t.Val) & mask(t.W)
	default:
		v = evalBin(t.Op, t.A.W, tt.Eval(t.A, m, memo), tt.Eval(t.B, m, memo))
	}
	memo[t] = v
	return v
}

func maskB(w uint8) uint64 {
	if w == 0 {
		return 1
	}
	return mask(w)
}

// Vars collects the variables of t.
func Vars(t *Term, seen map[*Term]bool, out map[string]uint8) {
	if t == nil || seen[t] {
		return
	}
	seen[t] = true
	if t.Op == OpVar {
		out[t.Name] = t.W
		return
	}
	Vars(t.A, seen, out)
	Vars(t.B, seen, out)
	Vars(t.C, seen, out)
}

// ---------------------------------------------------------------------------
// SMT-LIB2 printing

func sortStr(w uint8) string {
	if w == 0 {
		return "Bool"
	}
	return fmt.Sprintf("(_ BitVec %d)", w)
}

func constStr(w uint8, v uint64) string {
	if w == 0 {
		if v != 0 {
			return "true"
		}
		return "false"
	}
	if w%4 == 0 {
		return fmt.Sprintf("#x%0*x", int(w/4), v)
	}
	return fmt.Sprintf("#b%0*b", int(w), v)
}

func smtName(s string) string {
	// variable names are quoted with |..|; strip characters that cannot appear
	s = strings.Map(func(r rune) rune {
		if r == '|' || r == '\\' {
			return '_'
		}
		return r
	}, s)
	return "|" + s + "|"
}

// Emitter writes define-funs for term nodes once per scope.
type Emitter struct {
	emitted map[*Term]bool
	sb      *strings.Builder
	rec     *[]*Term // newly emitted nodes are appended here (for scope pops)
	declared map[string]bool
}

func (e *Emitter) ref(t *Term) string {
	switch t.Op {
	case OpConst:
		return constStr(t.W, t.Val)
	case OpVar:
		return smtName(t.Name)
	}
	return fmt.Sprintf("t%d", t.id)
}

// emit writes declarations/definitions needed for t (children first, iteratively safe depth).
func (e *Emitter) emit(t *Term) {
	if t == nil || t.Op == OpConst || e.emitted[t] {
		return
	}
	// iterative post-order to avoid deep recursion on long chains
	type fr struct {
		t *Term
		s int
	}
	stack := []fr{{t, 0}}
	for len(stack) > 0 {
		top := &stack[len(stack)-1]
		x := top.t
		if x == nil || x.Op == OpConst || e.emitted[x] {
			stack = stack[:len(stack)-1]
			continue
		}
		if top.s == 0 {
			top.s = 1
			if x.C != nil {
				stack = append(stack, fr{x.C, 0})
			}
			if x.B != nil {
				stack = append(stack, fr{x.B, 0})
			}
			if x.A != nil {
				stack = append(stack, fr{x.A, 0})
			}
			continue
		}
		stack = stack[:len(stack)-1]
		e.emitted[x] = true
		if e.rec != nil {
			*e.rec = append(*e.rec, x)
		}
		if x.Op == OpVar {
			e.declared[x.Name] = true
			fmt.Fprintf(e.sb, "(declare-const %s %s)\n", smtName(x.Name), sortStr(x.W))
			continue
		}
		fmt.Fprintf(e.sb, "(define-fun t%d () %s ", x.id, sortStr(x.W))
		switch x.Op {
		case OpZExt:
			fmt.Fprintf(e.sb, "((_ zero_extend %d) %s)", x.W-x.A.W, e.ref(x.A))
		case OpSExt:
			fmt.Fprintf(e.sb, "((_ sign_extend %d) %s)", x.W-x.A.W, e.ref(x.A))
		case OpExtract:
			fmt.Fprintf(e.sb, "((_ extract %d %d) %s)", int(x.Val)+int(x.W)-1, x.Val, e.ref(x.A))
		default:
			fmt.Fprintf(e.sb, "(%s", opNames[x.Op])
			if x.A != nil {
				e.sb.WriteByte(' ')
				e.sb.WriteString(e.ref(x.A))
			}
			if x.B != nil {
				e.sb.WriteByte(' ')
				e.sb.WriteString(e.ref(x.B))
			}
			if x.C != nil {
				e.sb.WriteByte(' ')
				e.sb.WriteString(e.ref(x.C))
			}
			e.sb.WriteByte(')')
		}
		e.sb.WriteString(")\n")
	}
}

// String renders a term for debugging (may be large).
func (t *Term) String() string {
	switch t.Op {
	case OpConst:
		if t.W == 0 {
			return constStr(0, t.Val)
		}
		return fmt.Sprintf("%d:bv%d", t.Val, t.W)
	case OpVar:
		return t.Name
	}
	s := "(" + opNames[t.Op]
	if t.Op == OpExtract {
		s += fmt.Sprintf("[%d+%d]", t.Val, t.W)
	}
	for _, c := range []*Term{t.A, t.B, t.C} {
		if c != nil {
			s += " " + c.String()
		}
	}
	return s + ")"
}

var _ = bits.Len
