package sym

// SSA interpreter core; derived from golang.org/x/tools/go/ssa/interp (BSD licence).

import (
	"fmt"
	"go/token"
	"go/types"
	"os"
	"runtime"
	"slices"
	"sort"
	"strings"

	"golang.org/x/tools/go/ssa"
)

type continuation int

const (
	kNext continuation = iota
	kReturn
	kJump
)

// interpreter is the per-worker state.
type interpreter struct {
	reflRT             types.Type
	prog               *ssa.Program
	globals            map[*ssa.Global]*value
	inited             map[*ssa.Package]bool
	initAllow          func(p *ssa.Package) bool
	runtimeErrorString types.Type
	tt                 *TermTable
	solver             *Solver
	ps                 *pathState
	undo               []undoRec
	undoOn             bool
	trace              bool
	extCache           map[*ssa.Function]externalFn
	constCache         map[*ssa.Const]value
	targetPkgs         map[string]bool // package paths considered "code under test"
	stepBudget         int64
	funcsSym           map[*ssa.Function]bool // functions executed with a symbolic operand
	funcsRun           map[*ssa.Function]bool
	intercepted        map[string]int
	sched              *scheduler
	uninitReads        map[string]bool
	symFlag            bool
	knownActive        map[string]bool
	initWarn           []string
	curFn              *ssa.Function
	decSites           map[string]int
	stubsUsed          map[string]bool
	base               solverBase
	uniq               map[string]*value
}

// notHandled is returned by an intercept that declines (the body is interpreted instead).
type notHandled struct{}

type deferred struct {
	fn    value
	args  []value
	instr *ssa.Defer
	tail  *deferred
}

type frame struct {
	i                *interpreter
	caller           *frame
	fn               *ssa.Function
	block, prevBlock *ssa.BasicBlock
	env              map[ssa.Value]value // dynamic values of SSA variables
	locals           []value
	defers           *deferred
	result           value
	panicking        bool
	panic            interface{}
	phitemps         []value // temporaries for parallel phi assignment
	callInstr        ssa.Instruction
}

// nativeFn is an engine-implemented function value that interpreted code may call (callbacks of
// stubbed library functions).
type nativeFn func(fr *frame, args []value) value

// boundMethod is an interface method value x.M (closure over receiver).
type boundMethod struct {
	fn   *ssa.Function
	recv value
}

func (fr *frame) get(key ssa.Value) value {
	switch key := key.(type) {
	case nil:
		return nil
	case *ssa.Function, *ssa.Builtin:
		return key
	case *ssa.Const:
		if v, ok := fr.i.constCache[key]; ok {
			return v
		}
		v := constValue(key)
		switch v.(type) {
		case structure, array: // mutable aggregates: do not share
			return v
		}
		fr.i.constCache[key] = v
		return v
	case *ssa.Global:
		if r, ok := fr.i.globals[key]; ok {
			if key.Pkg != nil && !fr.i.inited[key.Pkg] {
				fr.i.noteUninit(key)
			}
			return r
		}
	}
	if r, ok := fr.env[key]; ok {
		return r
	}
	panic(fmt.Sprintf("get: no value for %T: %v in %s", key, key.Name(), fr.fn))
}

func (i *interpreter) noteUninit(g *ssa.Global) {
	name := g.Pkg.Pkg.Path() + "." + g.Name()
	if !i.uninitReads[name] {
		i.uninitReads[name] = true
	}
}

func isAbort(p interface{}) bool {
	_, ok := p.(pathAbort)
	return ok
}

// runDefer runs a deferred call d.
func (fr *frame) runDefer(d *deferred) {
	var ok bool
	defer func() {
		if !ok {
			r := recover()
			if isAbort(r) || isEngineBug(r) {
				panic(r)
			}
			// Deferred call created a new state of panic.
			fr.panicking = true
			fr.panic = r
		}
	}()
	fr.i.call(fr, d.instr.Pos(), d.fn, d.args, d.instr)
	ok = true
}

func (fr *frame) runDefers() {
	for d := fr.defers; d != nil; d = d.tail {
		fr.runDefer(d)
	}
	fr.defers = nil
	if fr.panicking {
		panic(fr.panic) // new panic, or still panicking
	}
}

func (i *interpreter) lookupMethod(typ types.Type, meth *types.Func) *ssa.Function {
	return i.prog.LookupMethod(typ, meth.Pkg(), meth.Name())
}

// engineBug wraps unexpected host panics so that they are never mistaken for target panics.
type engineBug struct {
	p     interface{}
	stack string
	where string
}

func isEngineBug(p interface{}) bool {
	_, ok := p.(engineBug)
	return ok
}

func (fr *frame) where(instr ssa.Instruction) string {
	return fmt.Sprintf("%s: %v [%s]", fr.fn, instr, fr.i.prog.Fset.Position(instr.Pos()))
}

// visitInstr interprets a single ssa.Instruction.
func (fr *frame) visitInstr(instr ssa.Instruction) continuation {
	i := fr.i
	switch instr := instr.(type) {
	case *ssa.DebugRef:
		// no-op

	case *ssa.UnOp:
		fr.env[instr] = fr.unop(instr, fr.get(instr.X))

	case *ssa.BinOp:
		fr.env[instr] = i.binop(instr.Op, instr.X.Type(), fr.get(instr.X), fr.get(instr.Y))

	case *ssa.Call:
		fn, args := fr.prepareCall(&instr.Call)
		fr.env[instr] = i.call(fr, instr.Pos(), fn, args, instr)

	case *ssa.ChangeInterface:
		fr.env[instr] = fr.get(instr.X)

	case *ssa.ChangeType:
		fr.env[instr] = fr.get(instr.X) // (can't fail)

	case *ssa.Convert:
		fr.env[instr] = fr.conv(instr.Type(), instr.X.Type(), fr.get(instr.X))

	case *ssa.MultiConvert:
		fr.env[instr] = fr.conv(instr.Type(), instr.X.Type(), fr.get(instr.X))

	case *ssa.SliceToArrayPointer:
		fr.env[instr] = i.sliceToArrayPointer(instr.Type(), instr.X.Type(), fr.get(instr.X))

	case *ssa.MakeInterface:
		fr.env[instr] = iface{t: instr.X.Type(), v: fr.get(instr.X)}

	case *ssa.Extract:
		fr.env[instr] = fr.get(instr.Tuple).(tuple)[instr.Index]

	case *ssa.Slice:
		fr.env[instr] = fr.slice(instr, fr.get(instr.X), fr.get(instr.Low), fr.get(instr.High), fr.get(instr.Max))

	case *ssa.Return:
		switch len(instr.Results) {
		case 0:
		case 1:
			fr.result = fr.get(instr.Results[0])
		default:
			var res []value
			for _, r := range instr.Results {
				res = append(res, fr.get(r))
			}
			fr.result = tuple(res)
		}
		fr.block = nil
		return kReturn

	case *ssa.RunDefers:
		fr.runDefers()

	case *ssa.Panic:
		panic(targetPanic{fr.get(instr.X)})

	case *ssa.Send:
		fr.chanSend(fr.get(instr.Chan).(*vchan), fr.get(instr.X))

	case *ssa.Store:
		i.store(deref(instr.Addr.Type()), fr.get(instr.Addr), fr.get(instr.Val))

	case *ssa.If:
		succ := 1
		c := fr.get(instr.Cond)
		switch c := c.(type) {
		case bool:
			if c {
				succ = 0
			}
		case *Term:
			fr.noteSym()
			if i.decide(c) {
				succ = 0
			}
		}
		fr.prevBlock, fr.block = fr.block, fr.block.Succs[succ]
		return kJump

	case *ssa.Jump:
		fr.prevBlock, fr.block = fr.block, fr.block.Succs[0]
		return kJump

	case *ssa.Defer:
		fn, args := fr.prepareCall(&instr.Call)
		defers := &fr.defers
		if into := fr.get(instr.DeferStack); into != nil {
			defers = into.(**deferred)
		}
		*defers = &deferred{
			fn:    fn,
			args:  args,
			instr: instr,
			tail:  *defers,
		}

	case *ssa.Go:
		fn, args := fr.prepareCall(&instr.Call)
		i.spawn(fr, instr, fn, args)

	case *ssa.MakeChan:
		n := fr.concInt(fr.get(instr.Size), types.Typ[types.Int], "chan size")
		fr.env[instr] = &vchan{capacity: int(n), elem: instr.Type().Underlying().(*types.Chan).Elem()}

	case *ssa.Alloc:
		var addr *value
		if instr.Heap {
			addr = new(value)
			fr.env[instr] = addr
			*addr = zero(deref(instr.Type()))
		} else {
			addr = fr.env[instr].(*value)
			// local re-initialisation on loop iterations is a visible write
			i.wr(addr, zero(deref(instr.Type())))
		}

	case *ssa.MakeSlice:
		tElt := instr.Type().Underlying().(*types.Slice).Elem()
		lenv, capv := fr.get(instr.Len), fr.get(instr.Cap)
		fr.chargeAllocSym(capv, stdSizes.Sizeof(tElt))
		n := fr.concInt(lenv, types.Typ[types.Int], "make len")
		c := fr.concInt(capv, types.Typ[types.Int], "make cap")
		if n < 0 || c < n {
			panic(i.rtPanic("makeslice: len out of range"))
		}
		if c > 1<<26 {
			panic(abort(abUnsupported, fmt.Sprintf("make of %d elements", c)))
		}
		slice := make([]value, c)
		for k := range slice {
			slice[k] = zero(tElt)
		}
		fr.env[instr] = slice[:n]

	case *ssa.MakeMap:
		fr.env[instr] = makeMap(instr.Type().Underlying().(*types.Map).Key())

	case *ssa.Range:
		fr.env[instr] = fr.rangeIter(fr.get(instr.X), instr.X.Type())

	case *ssa.Next:
		fr.env[instr] = fr.get(instr.Iter).(iter).next(fr)

	case *ssa.FieldAddr:
		p, ok := fr.get(instr.X).(*value)
		if !ok {
			panic(abort(abUnsupported, fmt.Sprintf("FieldAddr on %T", fr.get(instr.X))))
		}
		if p == nil {
			panic(i.rtPanic("invalid memory address or nil pointer dereference"))
		}
		fr.env[instr] = &(*p).(structure)[instr.Field]

	case *ssa.Field:
		fr.env[instr] = fr.get(instr.X).(structure)[instr.Field]

	case *ssa.IndexAddr:
		x := fr.get(instr.X)
		idx := fr.get(instr.Index)
		var cells []value
		switch x := x.(type) {
		case []value:
			cells = x
		case *value: // *array
			if x == nil {
				panic(i.rtPanic("invalid memory address or nil pointer dereference"))
			}
			cells = (*x).(array)
		default:
			panic(fmt.Sprintf("unexpected x type in IndexAddr: %T", x))
		}
		if tm, ok := idx.(*Term); ok {
			fr.noteSym()
			fr.env[instr] = fr.symIndexAddr(instr, cells, tm, instr.Index.Type())
		} else {
			k := asInt64(idx)
			if k < 0 || k >= int64(len(cells)) {
				panic(i.rtPanic(fmt.Sprintf("index out of range [%d] with length %d", k, len(cells))))
			}
			fr.env[instr] = &cells[k]
		}

	case *ssa.Index:
		x := fr.get(instr.X)
		idx := fr.get(instr.Index)
		var cells []value
		switch x := x.(type) {
		case array:
			cells = x
		case string:
			if tm, ok := idx.(*Term); !ok {
				k := asInt64(idx)
				if k < 0 || k >= int64(len(x)) {
					panic(i.rtPanic(fmt.Sprintf("index out of range [%d] with length %d", k, len(x))))
				}
				fr.env[instr] = x[k]
				return kNext
			} else {
				_ = tm
				cells = i.cachedStrCells(x)
			}
		case symstr:
			cells = x.c
		default:
			panic(fmt.Sprintf("unexpected x type in Index: %T", x))
		}
		if tm, ok := idx.(*Term); ok {
			fr.noteSym()
			tm = fr.boundsCheck(tm, instr.Index.Type(), len(cells))
			et := instr.Type()
			if _, basic := et.Underlying().(*types.Basic); !basic {
				k := i.concretize(tm, "index of non-scalar array")
				fr.env[instr] = cells[k]
			} else {
				k, _ := basicKind(et)
				fr.env[instr] = norm(k, i.selectCell(cells, tm).(*Term))
			}
		} else {
			k := asInt64(idx)
			if k < 0 || k >= int64(len(cells)) {
				panic(i.rtPanic(fmt.Sprintf("index out of range [%d] with length %d", k, len(cells))))
			}
			fr.env[instr] = cells[k]
		}

	case *ssa.Lookup:
		fr.env[instr] = fr.lookup(instr, fr.get(instr.X), fr.get(instr.Index))

	case *ssa.MapUpdate:
		m := fr.get(instr.Map).(*omap)
		if m == nil {
			panic(targetPanic{i.runtimeError("assignment to entry in nil map")})
		}
		key := fr.get(instr.Key)
		v := fr.get(instr.Value)
		m.insert(fr, key, copyAgg(v))

	case *ssa.TypeAssert:
		fr.env[instr] = i.typeAssert(instr, fr.get(instr.X).(iface))

	case *ssa.MakeClosure:
		var bindings []value
		for _, binding := range instr.Bindings {
			bindings = append(bindings, fr.get(binding))
		}
		fr.env[instr] = &closure{instr.Fn.(*ssa.Function), bindings}

	case *ssa.Phi:
		panic("unreachable: phis are processed at block entry")

	case *ssa.Select:
		fr.env[instr] = fr.doSelect(instr)

	default:
		panic(fmt.Sprintf("unexpected instruction: %T", instr))
	}
	return kNext
}

func (i *interpreter) cachedStrCells(s string) []value {
	return strCells(s)
}

// boundsCheck forks on idx being in [0,n) (panicking on the out-of-range side) and returns idx.
func (fr *frame) boundsCheck(idx *Term, t types.Type, n int) *Term {
	i := fr.i
	if idx.W < 64 {
		if k, ok := basicKind(t); ok && !kindUnsigned(k) {
			idx = i.tt.SExt(idx, 64)
		} else {
			idx = i.tt.ZExt(idx, 64)
		}
	}
	in := i.tt.Bin(OpULt, idx, i.tt.Const(idx.W, uint64(n)))
	if !i.decide(in) {
		panic(i.rtPanic(fmt.Sprintf("index out of range [symbolic %s] with length %d at %s <- %s", idx, n, fr.fn, fr.stackString(4))))
	}
	return idx
}

func (fr *frame) symIndexAddr(instr *ssa.IndexAddr, cells []value, idx *Term, it types.Type) value {
	i := fr.i
	idx = fr.boundsCheck(idx, it, len(cells))
	et := deref(instr.Type())
	if _, basic := et.Underlying().(*types.Basic); !basic || len(cells) > 512 {
		if readOnlyAddr(instr, 0) {
			if p := fr.pickByClass(cells, idx, et); p != nil {
				return p
			}
		}
		k := i.concretize(idx, "index of non-scalar slice element")
		return &cells[k]
	}
	if len(cells) == 1 {
		return &cells[0]
	}
	return &symAddr{cells: cells, idx: idx}
}

func (fr *frame) lookup(instr *ssa.Lookup, x, idx value) value {
	m, ok := x.(*omap)
	if !ok {
		panic(fmt.Sprintf("unexpected x type in Lookup: %T", x))
	}
	v, found := m.lookup(fr, idx)
	if !found {
		v = zero(instr.X.Type().Underlying().(*types.Map).Elem())
	} else {
		v = copyAgg(v)
	}
	if instr.CommaOk {
		v = tuple{v, found}
	}
	return v
}

func (fr *frame) noteSym() {
	if !fr.i.funcsSym[fr.fn] {
		fr.i.funcsSym[fr.fn] = true
	}
}

// prepareCall determines the function value and argument values for a call.
func (fr *frame) prepareCall(call *ssa.CallCommon) (fn value, args []value) {
	v := fr.get(call.Value)
	if call.Method == nil {
		fn = v
	} else {
		recv := v.(iface)
		if recv.t == nil {
			panic(fr.i.rtPanic("invalid memory address or nil pointer dereference (method call on nil interface)"))
		}
		if no, ok := recv.v.(nativeObj); ok {
			if rt, ok := no.v.(reflType); ok {
				fn = fr.i.reflTypeMethod(rt, call.Method.Name())
				for _, arg := range call.Args {
					args = append(args, fr.get(arg))
				}
				return
			}
		}
		if f := fr.i.lookupMethod(recv.t, call.Method); f == nil {
			panic(fmt.Sprintf("method set for dynamic type %v does not contain %s", recv.t, call.Method))
		} else {
			fn = f
		}
		args = append(args, recv.v)
	}
	for _, arg := range call.Args {
		args = append(args, fr.get(arg))
	}
	return
}

// call interprets a call to a function (function, builtin or closure).
func (i *interpreter) call(caller *frame, callpos token.Pos, fn value, args []value, site ssa.Instruction) value {
	switch fn := fn.(type) {
	case *ssa.Function:
		if fn == nil {
			panic(i.rtPanic("invalid memory address or nil pointer dereference (call of nil func)"))
		}
		return i.callSSA(caller, callpos, fn, args, nil, site)
	case *closure:
		return i.callSSA(caller, callpos, fn.Fn, args, fn.Env, site)
	case *ssa.Builtin:
		ci, _ := site.(ssa.CallInstruction)
		return caller.callBuiltin(callpos, fn, args, ci)
	case *boundMethod:
		return i.callSSA(caller, callpos, fn.fn, append([]value{fn.recv}, args...), nil, site)
	case nativeFn:
		return fn(caller, args)
	}
	panic(fmt.Sprintf("cannot call %T", fn))
}

func (i *interpreter) isTargetFn(fn *ssa.Function) bool {
	if fn.Pkg != nil {
		return i.targetPkgs[fn.Pkg.Pkg.Path()]
	}
	if p := fn.Parent(); p != nil {
		return i.isTargetFn(p)
	}
	if o := fn.Origin(); o != nil && o != fn {
		return i.isTargetFn(o)
	}
	return false
}

func (i *interpreter) externalFor(fn *ssa.Function) externalFn {
	if e, ok := i.extCache[fn]; ok {
		return e
	}
	var e externalFn
	if fn.Parent() == nil {
		name := fn.String()
		if o := fn.Origin(); o != nil && o != fn {
			// generic instance: match on the origin's name as well
			if x := externals[o.String()]; x != nil {
				e = x
			}
		}
		if x := externals[name]; x != nil {
			e = x
		}
		if e == nil {
			e = i.packageLevelIntercept(fn, name)
		}
	}
	i.extCache[fn] = e
	return e
}

// callSSA interprets a call to function fn with arguments args and lexical environment env.
func (i *interpreter) callSSA(caller *frame, callpos token.Pos, fn *ssa.Function, args []value, env []value, site ssa.Instruction) value {
	fr := &frame{
		i:         i,
		caller:    caller, // for panic/recover
		fn:        fn,
		callInstr: site,
	}
	if fn.Synthetic == "package initializer" && fn.Pkg != nil {
		if !i.initAllow(fn.Pkg) {
			return nil
		}
		i.inited[fn.Pkg] = true
	} else if ext := i.externalFor(fn); ext != nil {
		if r := ext(fr, args); r != (notHandled{}) {
			i.intercepted[fn.String()]++
			return r
		}
	}
	if fn.Blocks == nil {
		panic(abort(abUnsupported, "no code for function: "+fn.String()+" from "+fr.stackString(6)))
	}
	if fn.TypeParams().Len() > 0 && len(fn.TypeArgs()) == 0 {
		panic(abort(abUnsupported, "uninstantiated generic function "+fn.String()))
	}
	if i.trace {
		fmt.Fprintf(os.Stderr, "%s-> %s\n", strings.Repeat(" ", fr.depth()), fn)
	}
	i.funcsRun[fn] = true

	fr.env = make(map[ssa.Value]value, len(fn.Params)+8)
	fr.block = fn.Blocks[0]
	fr.locals = make([]value, len(fn.Locals))
	for k, l := range fn.Locals {
		fr.locals[k] = zero(deref(l.Type()))
		fr.env[l] = &fr.locals[k]
	}
	for k, p := range fn.Params {
		fr.env[p] = args[k]
	}
	for k, fv := range fn.FreeVars {
		fr.env[fv] = env[k]
	}
	for fr.block != nil {
		fr.runFrame()
	}
	return fr.result
}

func (fr *frame) depth() int {
	d := 0
	for f := fr; f != nil; f = f.caller {
		d++
	}
	return d
}

// runFrame executes SSA instructions starting at fr.block and continuing until a return, a
// panic, or a recovered panic.
func (fr *frame) runFrame() {
	defer func() {
		if fr.block == nil {
			return // normal return
		}
		r := recover()
		if r == nil {
			return
		}
		if isAbort(r) || isEngineBug(r) {
			panic(r)
		}
		if _, ok := r.(targetPanic); !ok {
			// host panic inside the engine: not a target panic
			buf := make([]byte, 1<<14)
			n := runtime.Stack(buf, false)
			panic(engineBug{p: r, stack: string(buf[:n]), where: fr.fn.String()})
		}
		fr.panicking = true
		fr.panic = r
		fr.runDefers()
		fr.block = fr.fn.Recover
		if fr.block == nil {
			// recovered in a function without named results: return zero values
			fr.result = zeroResults(fr.fn)
		}
	}()

	i := fr.i
	isInit := fr.fn.Synthetic == "package initializer"
	for {
		nonPhis := fr.executePhis()
		for _, instr := range nonPhis {
			if i.trace {
				if v, ok := instr.(ssa.Value); ok {
					fmt.Fprintln(os.Stderr, "\t", v.Name(), "=", instr)
				} else {
					fmt.Fprintln(os.Stderr, "\t", instr)
				}
			}
			i.curFn = fr.fn
			if i.ps != nil {
				i.ps.steps++
				if i.ps.steps > i.stepBudget {
					panic(abort(abBudget, fmt.Sprintf("step budget %d exceeded in %s", i.stepBudget, fr.fn)))
				}
			}
			if isInit {
				if fr.visitInitInstr(instr) == kReturn {
					return
				}
				continue
			}
			if fr.visitInstr(instr) == kReturn {
				return
			}
		}
	}
}

// visitInitInstr runs one instruction of a package initializer; an initialiser expression the
// engine cannot model leaves the zero value behind (recorded as a warning) instead of aborting
// the whole package initialisation.
func (fr *frame) visitInitInstr(instr ssa.Instruction) (k continuation) {
	defer func() {
		if r := recover(); r != nil {
			pa, ok := r.(pathAbort)
			if !ok || pa.kind != abUnsupported {
				if eb, isBug := r.(engineBug); isBug {
					fr.i.initWarn = append(fr.i.initWarn, fmt.Sprintf("%s: engine bug %v", fr.fn.Pkg.Pkg.Path(), eb.p))
				} else if tp, isTP := r.(targetPanic); isTP {
					fr.i.initWarn = append(fr.i.initWarn, fmt.Sprintf("%s: panic %s", fr.fn.Pkg.Pkg.Path(), toString(tp.v)))
				} else {
					panic(r)
				}
			} else {
				fr.i.initWarn = append(fr.i.initWarn, fmt.Sprintf("%s: %s", fr.fn.Pkg.Pkg.Path(), pa.msg))
			}
			if v, isVal := instr.(ssa.Value); isVal {
				if _, isTuple := v.Type().(*types.Tuple); isTuple {
					fr.env[v] = zero(v.Type())
				} else {
					fr.env[v] = zero(v.Type())
				}
			}
			k = kNext
		}
	}()
	return fr.visitInstr(instr)
}

func zeroResults(fn *ssa.Function) value {
	res := fn.Signature.Results()
	switch res.Len() {
	case 0:
		return nil
	case 1:
		return zero(res.At(0).Type())
	}
	t := make(tuple, res.Len())
	for k := range t {
		t[k] = zero(res.At(k).Type())
	}
	return t
}

// executePhis executes the phi-nodes at the start of the current block.
func (fr *frame) executePhis() []ssa.Instruction {
	firstNonPhi := -1
	for k, instr := range fr.block.Instrs {
		if _, ok := instr.(*ssa.Phi); !ok {
			firstNonPhi = k
			break
		}
	}
	nonPhis := fr.block.Instrs[firstNonPhi:]
	if firstNonPhi > 0 {
		phis := fr.block.Instrs[:firstNonPhi]
		predIndex := slices.Index(fr.block.Preds, fr.prevBlock)
		fr.phitemps = fr.phitemps[:0]
		for _, phi := range phis {
			phi := phi.(*ssa.Phi)
			fr.phitemps = append(fr.phitemps, fr.get(phi.Edges[predIndex]))
		}
		for k, phi := range phis {
			fr.env[phi.(*ssa.Phi)] = fr.phitemps[k]
		}
	}
	return nonPhis
}

// doRecover implements the recover() built-in.
func doRecover(caller *frame) value {
	if caller != nil && !caller.panicking &&
		caller.caller != nil && caller.caller.panicking {
		caller.caller.panicking = false
		p := caller.caller.panic
		caller.caller.panic = nil
		switch p := p.(type) {
		case targetPanic:
			return p.v
		default:
			panic(fmt.Sprintf("unexpected panic type %T in target call to recover()", p))
		}
	}
	return iface{}
}

// initGlobals allocates storage for all package-level variables.
func (i *interpreter) initGlobals() {
	for _, pkg := range i.prog.AllPackages() {
		for _, m := range pkg.Members {
			if g, ok := m.(*ssa.Global); ok {
				cell := zero(deref(g.Type()))
				i.globals[g] = &cell
			}
		}
	}
}

// runInit runs the init function of pkg (dependencies are handled by the intercept on X.init calls).
func (i *interpreter) runInit(pkg *ssa.Package) {
	if i.inited[pkg] {
		return
	}
	i.inited[pkg] = true
	if f := pkg.Func("init"); f != nil {
		i.callSSA(nil, token.NoPos, f, nil, nil, nil)
	}
}

func (fr *frame) stackString(n int) string {
	var parts []string
	for f := fr.caller; f != nil && len(parts) < n; f = f.caller {
		parts = append(parts, f.fn.String())
	}
	return strings.Join(parts, " <- ")
}

// readOnlyAddr reports whether the address produced by v is only ever read (loaded, or used to
// address fields/elements that are only read).
func readOnlyAddr(v ssa.Value, depth int) bool {
	if depth > 4 {
		return false
	}
	refs := v.Referrers()
	if refs == nil {
		return false
	}
	for _, r := range *refs {
		switch x := r.(type) {
		case *ssa.UnOp:
			if x.Op != token.MUL {
				return false
			}
		case *ssa.FieldAddr:
			if !readOnlyAddr(x, depth+1) {
				return false
			}
		case *ssa.IndexAddr:
			if x.X != v || !readOnlyAddr(x, depth+1) {
				return false
			}
		case *ssa.DebugRef:
		default:
			return false
		}
	}
	return true
}

// pickByClass resolves a read-only symbolic index into a table of aggregates by forking over the
// classes of identical elements instead of over every index.
func (fr *frame) pickByClass(cells []value, idx *Term, et types.Type) value {
	i := fr.i
	type class struct {
		rep   int
		items []int
	}
	var classes []*class
	byKey := map[interface{}]*class{}
	for k, c := range cells {
		ck, ok := canonKey(et, c)
		if !ok {
			return nil
		}
		key := fmt.Sprintf("%T|%v", ck, ck)
		cl := byKey[key]
		if cl == nil {
			cl = &class{rep: k}
			byKey[key] = cl
			classes = append(classes, cl)
		}
		cl.items = append(cl.items, k)
	}
	if len(classes) > 12 {
		// many classes: for structs of scalar fields build the element field-wise as ite trees
		// over the table (no forking); the address is only read, so a fresh cell is equivalent
		if st, ok := et.Underlying().(*types.Struct); ok {
			res := make(structure, st.NumFields())
			for f := 0; f < st.NumFields(); f++ {
				k, basic := basicKind(st.Field(f).Type())
				if !basic || kindWidth(k) == 64 && (k == types.Float64 || k == types.String) || k == types.String || k == types.Float32 || k == types.Float64 {
					return nil
				}
				col := make([]value, len(cells))
				for c := range cells {
					col[c] = cells[c].(structure)[f]
				}
				res[f] = norm(k, i.selectCell(col, idx).(*Term))
			}
			cell := value(res)
			return &cell
		}
		return nil
	}
	// smallest classes first; the last (largest) class needs no decision
	sort.Slice(classes, func(a, b int) bool { return len(classes[a].items) < len(classes[b].items) })
	for n, cl := range classes {
		if n == len(classes)-1 {
			return &cells[cl.rep]
		}
		var member *Term = i.tt.False
		// build membership as a union of ranges
		for s := 0; s < len(cl.items); {
			e := s
			for e+1 < len(cl.items) && cl.items[e+1] == cl.items[e]+1 {
				e++
			}
			lo, hi := uint64(cl.items[s]), uint64(cl.items[e])
			var r *Term
			if lo == hi {
				r = i.tt.Eq(idx, i.tt.Const(idx.W, lo))
			} else {
				r = i.tt.And(i.tt.Bin(OpULe, i.tt.Const(idx.W, lo), idx), i.tt.Bin(OpULe, idx, i.tt.Const(idx.W, hi)))
			}
			member = i.tt.Or(member, r)
			s = e + 1
		}
		if i.decide(member) {
			return &cells[cl.rep]
		}
	}
	return nil
}
