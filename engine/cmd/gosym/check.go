package main

// gosym check <ID> [--tier quick|thorough]: run every harness of a property, replay
// counterexamples natively, write evidence, exit 0 / 1 (VIOLATION) / 2 (inconclusive).

import (
	"encoding/json"
	"flag"
	"fmt"
	"os"
	"os/exec"
	"path/filepath"
	"regexp"
	"sort"
	"strconv"
	"strings"
	"time"

	"gosym/sym"
)

const verifDir = "/verif"

type HarnessRun struct {
	Rel        string // package dir relative to /repo ("." for root)
	Dir        string // harness dir under /verif/harness
	Entry      string
	Cases      func(tier string, seed int64) []int
	Reach      []string // tags that must be reached on some path over all cases
	MaxPaths   int
	StepBudget int64
	ExtraPkgs  []string // additional target packages (import paths)
	Repeat     int      // native replay repetitions (for order-dependent findings)
	Thorough   bool     // only in thorough tier
}

type PropSpec struct {
	ID          string
	Runs        []HarnessRun
	Assumptions []string
	Bounds      map[string]string // tier -> text
	Rule        string
}

type KnownFinding struct {
	Property string `json:"property"`
	ID       string `json:"id"`
	Status   string `json:"status"` // "known" or "fixed"
	What     string `json:"what"`
	Commit   string `json:"commit,omitempty"`
	Witness  string `json:"witness,omitempty"`
}

func loadKnown() []KnownFinding {
	b, err := os.ReadFile(filepath.Join(verifDir, "known_findings.json"))
	if err != nil {
		return nil
	}
	var k []KnownFinding
	if err := json.Unmarshal(b, &k); err != nil {
		fmt.Fprintln(os.Stderr, "known_findings.json:", err)
		os.Exit(2)
	}
	return k
}

type replayVec struct {
	Sched  []int             `json:"sched,omitempty"`
	Ints   map[string]uint64 `json:"ints"`
	Case   []int             `json:"case"`
	Entry  string            `json:"entry"`
	Tag    string            `json:"tag"`
	Known  string            `json:"known,omitempty"`
	Inputs []string          `json:"inputs_pretty,omitempty"`
	Trace  string            `json:"trace,omitempty"`
}

func prettyInputs(v sym.Violation) []string {
	// group name[i] bytes into strings
	groups := map[string][]byte{}
	order := []string{}
	re := regexp.MustCompile(`^(.*)\[(\d+)\]$`)
	var scalars []string
	for _, in := range v.Inputs {
		if m := re.FindStringSubmatch(in.Name); m != nil {
			idx, _ := strconv.Atoi(m[2])
			if _, ok := groups[m[1]]; !ok {
				order = append(order, m[1])
			}
			b := groups[m[1]]
			for len(b) <= idx {
				b = append(b, 0)
			}
			b[idx] = byte(v.Model[in.Name])
			groups[m[1]] = b
		} else {
			scalars = append(scalars, fmt.Sprintf("%s=%d", in.Name, v.Model[in.Name]))
		}
	}
	var out []string
	for _, n := range order {
		out = append(out, fmt.Sprintf("%s=%q", n, string(groups[n])))
	}
	out = append(out, scalars...)
	var nk []string
	for k := range v.Named {
		nk = append(nk, k)
	}
	sort.Strings(nk)
	for _, k := range nk {
		out = append(out, fmt.Sprintf("%s:=%d", k, v.Named[k]))
	}
	return out
}

func makeVec(entry string, caseID int, v sym.Violation) replayVec {
	rv := replayVec{Ints: map[string]uint64{}, Case: []int{caseID}, Entry: entry, Tag: v.Tag, Known: v.Known}
	for _, in := range v.Inputs {
		rv.Ints[in.Name] = v.Model[in.Name]
	}
	for k, n := range v.Named {
		rv.Ints[k] = n
	}
	rv.Inputs = prettyInputs(v)
	rv.Sched = v.Sched
	return rv
}

// nativeReplay compiles the harness natively (go test -overlay) and runs the vectors; it returns for
// each vector the set of failed assertion tags (union over repeats).
func nativeReplay(run HarnessRun, vecs []string, repeat int) (map[string][]string, string, error) {
	scratch, err := os.MkdirTemp("", "gosym-replay-")
	if err != nil {
		return nil, "", err
	}
	defer os.RemoveAll(scratch)
	hdir := filepath.Join(harnessRoot, run.Dir)
	ov, err := sym.HarnessOverlay(hdir, repoDir, run.Rel)
	if err != nil {
		return nil, "", err
	}
	pkgName := ""
	replace := map[string]string{}
	n := 0
	for virt, content := range ov {
		real := filepath.Join(scratch, fmt.Sprintf("f%d.go", n))
		n++
		if err := os.WriteFile(real, content, 0o644); err != nil {
			return nil, "", err
		}
		replace[virt] = real
		if pkgName == "" {
			for _, line := range strings.Split(string(content), "\n") {
				if strings.HasPrefix(line, "package ") {
					pkgName = strings.TrimSpace(strings.TrimPrefix(line, "package "))
					break
				}
			}
		}
	}
	test := fmt.Sprintf(`package %s

import (
	"encoding/json"
	"fmt"
	"os"
	"runtime/debug"
	"strings"
	"testing"
)

func TestVReplay(t *testing.T) {
	debug.SetGCPercent(-1)
	files := strings.Split(os.Getenv("VREPLAY_FILES"), ",")
	repeat := %d
	for _, f := range files {
		if f == "" {
			continue
		}
		b, err := os.ReadFile(f)
		if err != nil {
			t.Fatal(err)
		}
		union := map[string]bool{}
		for r := 0; r < repeat; r++ {
			var v vReplayVec
			v.Ints = map[string]uint64{}
			if err := json.Unmarshal(b, &v); err != nil {
				t.Fatal(err)
			}
			vSetVec(v)
			failed, _ := vRunNative(func() { vDispatch(v.Entry, v.Case[0]) })
			for _, x := range failed {
				union[x] = true
			}
		}
		var tags []string
		for k := range union {
			tags = append(tags, k)
		}
		jb, _ := json.Marshal(tags)
		ob, _ := json.Marshal(vObs)
		fmt.Printf("VREPLAY-OBS file=%%s obs=%%s\n", f, ob)
		fmt.Printf("VREPLAY-RESULT file=%%s failed=%%s\n", f, jb)
	}
}
`, pkgName, repeat)
	// dispatcher over all VH_ entries of the harness dir
	var entries []string
	re := regexp.MustCompile(`(?m)^func (VH_[A-Za-z0-9_]+)\(`)
	for _, content := range ov {
		for _, m := range re.FindAllStringSubmatch(string(content), -1) {
			entries = append(entries, m[1])
		}
	}
	sort.Strings(entries)
	disp := "\nfunc vDispatch(entry string, c int) {\n\tswitch entry {\n"
	for _, e := range entries {
		disp += fmt.Sprintf("\tcase %q:\n\t\t%s(c)\n", e, e)
	}
	disp += "\tdefault:\n\t\tpanic(\"unknown entry \" + entry)\n\t}\n}\n"
	testReal := filepath.Join(scratch, "zz_verif_replay_test.go")
	if err := os.WriteFile(testReal, []byte(test+disp), 0o644); err != nil {
		return nil, "", err
	}
	replace[filepath.Join(repoDir, run.Rel, "zz_verif_replay_test.go")] = testReal
	ovJSON, _ := json.Marshal(map[string]interface{}{"Replace": replace})
	ovPath := filepath.Join(scratch, "overlay.json")
	os.WriteFile(ovPath, ovJSON, 0o644)
	cmd := exec.Command("go", "test", "-v", "-vet=off", "-count=1", "-run", "^TestVReplay$", "-overlay", ovPath, "-timeout", "10m", "./"+run.Rel)
	cmd.Dir = repoDir
	cmd.Env = append(os.Environ(), "GOFLAGS=-mod=mod", "GOPROXY=off", "GOSUMDB=off", "GOTOOLCHAIN=local",
		"VREPLAY_FILES="+strings.Join(vecs, ","))
	out, err := cmd.CombinedOutput()
	res := map[string][]string{}
	rr := regexp.MustCompile(`(?m)^VREPLAY-RESULT file=(\S+) failed=(.*)$`)
	for _, m := range rr.FindAllStringSubmatch(string(out), -1) {
		var tags []string
		json.Unmarshal([]byte(m[2]), &tags)
		res[m[1]] = tags
	}
	ro := regexp.MustCompile(`(?m)^VREPLAY-OBS file=(\S+) obs=(.*)$`)
	for _, m := range ro.FindAllStringSubmatch(string(out), -1) {
		nativeObs[m[1]] = m[2]
	}
	if len(res) < len(vecs) {
		return res, string(out), fmt.Errorf("native replay did not report all vectors (go test: %v)", err)
	}
	return res, string(out), nil
}

var nativeObs = map[string]string{}

// harnessRoot: /verif/harness, unless GOSYM_HARNESS names a development copy (only honoured together
// with GOSYM_REPO, i.e. never by a registered command).
var harnessRoot = func() string {
	if d := os.Getenv("GOSYM_HARNESS"); d != "" && os.Getenv("GOSYM_REPO") != "" {
		return d
	}
	return filepath.Join(verifDir, "harness")
}()

// repoDir is the tree under test: /repo, unless GOSYM_REPO names a scratch copy (used only for
// development runs against seeded changes; registered commands never set it). evidence and replay
// files of such runs go to GOSYM_OUT instead of /verif.
var repoDir = func() string {
	if d := os.Getenv("GOSYM_REPO"); d != "" {
		return d
	}
	return "/repo"
}()

func tagReproduced(tag string, failed []string) bool {
	for _, f := range failed {
		if f == tag {
			return true
		}
		if tag == "uncaught-panic" && strings.HasPrefix(f, "uncaught-panic") {
			return true
		}
		if (tag == "goroutine-panic" || tag == "deadlock") && (strings.HasPrefix(f, "goroutine-panic") || strings.HasPrefix(f, "deadlock")) {
			return true
		}
	}
	return false
}

type evidence struct {
	PropertyID  string                 `json:"property_id"`
	Tier        string                 `json:"tier"`
	Seed        int64                  `json:"seed"`
	Level       string                 `json:"level"`
	Coverage    map[string]interface{} `json:"coverage"`
	Assumptions []string               `json:"assumptions"`
	WallS       float64                `json:"wall_s"`
	Violations  int                    `json:"violations"`
}

func cmdCheck(args []string) {
	fs := flag.NewFlagSet("check", flag.ExitOnError)
	tier := fs.String("tier", "", "quick|thorough")
	workers := fs.Int("workers", 0, "workers")
	only := fs.String("entry", "", "run only this entry")
	onlyCase := fs.Int("case", -1, "run only this case")
	verbose := fs.Bool("v", false, "verbose")
	noReplay := fs.Bool("noreplay", false, "skip native replay (debugging only: exit 2 if anything found)")
	if len(args) < 1 {
		fmt.Fprintln(os.Stderr, "usage: gosym check <ID> [--tier quick|thorough]")
		os.Exit(2)
	}
	id := args[0]
	fs.Parse(args[1:])
	if *tier == "" {
		*tier = os.Getenv("VERIF_TIER")
	}
	if *tier == "" {
		*tier = "quick"
	}
	seed := int64(1)
	if s := os.Getenv("VERIF_SEED"); s != "" {
		if v, err := strconv.ParseInt(s, 10, 64); err == nil {
			seed = v
		}
	}
	spec, ok := props[id]
	if !ok {
		fmt.Fprintln(os.Stderr, "unknown property", id)
		os.Exit(2)
	}
	t0 := time.Now()
	known := loadKnown()
	var active []string
	knownWhat := map[string]string{}
	for _, k := range known {
		if k.Property == id && k.Status == "known" {
			active = append(active, k.ID)
			knownWhat[k.ID] = k.What
		}
	}
	ev := evidence{PropertyID: id, Tier: *tier, Seed: seed, Level: "model_checking", Coverage: map[string]interface{}{}, Assumptions: spec.Assumptions}
	outDir := verifDir
	if d := os.Getenv("GOSYM_OUT"); d != "" && os.Getenv("GOSYM_REPO") != "" {
		outDir = d
	} else if os.Getenv("GOSYM_REPO") != "" {
		outDir = filepath.Join(os.TempDir(), "gosym-out")
	}
	evPath := filepath.Join(outDir, "evidence", id+".json")
	os.MkdirAll(filepath.Dir(evPath), 0o755)
	os.Remove(evPath)
	replayDir := filepath.Join(outDir, "replay", id)
	os.RemoveAll(replayDir)
	os.MkdirAll(replayDir, 0o755)

	progs := map[string]*sym.Program{}
	var states, transitions, queries, qsat, qunsat, qunk, asserts, tracesValidated, cases int
	var solverTime time.Duration
	var steps int64
	funcs := map[string]bool{}
	intercepted := map[string]int{}
	reach := map[string]int{}
	var inconclusive []string
	var samples []interface{}
	var caseList []string
	var initWarn []string
	type foundViol struct {
		run  HarnessRun
		c    int
		v    sym.Violation
		file string
	}
	var found []foundViol
	exit := 0
	fail2 := func(msg string) {
		inconclusive = append(inconclusive, msg)
	}
	for _, run := range spec.Runs {
		if run.Thorough && *tier != "thorough" {
			continue
		}
		if *only != "" && run.Entry != *only {
			continue
		}
		key := run.Rel + "|" + run.Dir
		prog := progs[key]
		if prog == nil {
			hdir := filepath.Join(harnessRoot, run.Dir)
			ov, err := sym.HarnessOverlay(hdir, repoDir, run.Rel)
			if err != nil {
				fmt.Fprintln(os.Stderr, "harness:", err)
				os.Exit(2)
			}
			prog, err = sym.Load(sym.LoadConfig{RepoDir: repoDir, Patterns: []string{"./" + run.Rel}, Overlay: ov})
			if err != nil {
				fmt.Println("INCONCLUSIVE: harness does not build against the current tree:")
				fmt.Println(err)
				writeEvidenceFail(ev, evPath, t0, "harness does not build: "+err.Error())
				os.Exit(2)
			}
			progs[key] = prog
		}
		pkgPath := prog.Pkgs[0].Pkg.Path()
		cs := run.Cases(*tier, seed)
		for _, c := range cs {
			if *onlyCase >= 0 && c != *onlyCase {
				continue
			}
			cases++
			targets := append([]string{pkgPath}, run.ExtraPkgs...)
			res, err := prog.Explore(sym.RunOpts{PkgPath: pkgPath, Entry: run.Entry, Args: []int{c}, Workers: *workers,
				MaxPaths: run.MaxPaths, StepBudget: run.StepBudget, TargetPkgs: targets, Known: active, StopAfterViol: 40})
			if err != nil {
				fail2(fmt.Sprintf("%s case %d: %v", run.Entry, c, err))
				continue
			}
			states += res.Paths - res.Infeasible
			transitions += res.Decisions
			queries += res.Queries
			qsat += res.QSat
			qunsat += res.QUnsat
			qunk += res.QUnknown
			asserts += res.Asserts
			solverTime += res.SolverTime
			steps += res.Steps
			for f := range res.FuncsSym {
				funcs[f] = true
			}
			for k, n := range res.Intercepted {
				intercepted[k] += n
			}
			for k, n := range res.Reach {
				reach[run.Entry+":"+k] += n
			}
			for _, w := range res.InitWarnings {
				dup := false
				for _, x := range initWarn {
					if x == w {
						dup = true
					}
				}
				if !dup {
					initWarn = append(initWarn, w)
				}
			}
			caseList = append(caseList, fmt.Sprintf("%s#%d:%dpaths", run.Entry, c, res.Paths))
			if *verbose {
				fmt.Fprintf(os.Stderr, "%s case %d: paths=%d (infeasible %d) decisions=%d asserts=%d queries=%d viol=%d incon=%d wall=%v\n",
					run.Entry, c, res.Paths, res.Infeasible, res.Decisions, res.Asserts, res.Queries, len(res.Violations), len(res.Inconclusive), res.Wall)
			}
			seenIn := map[string]int{}
			for _, in := range res.Inconclusive {
				seenIn[in]++
			}
			for in, n := range seenIn {
				fail2(fmt.Sprintf("%s case %d: x%d %s", run.Entry, c, n, in))
			}
			if len(samples) < 12 {
				for _, s := range res.Samples {
					if len(samples) >= 12 {
						break
					}
					samples = append(samples, map[string]interface{}{"entry": run.Entry, "case": c, "decisions": s.Trace, "observations": s.Obs, "status": s.Status})
					break
				}
			}
			// keep at most 3 violations per (tag, known) per case
			perKey := map[string]int{}
			for _, v := range res.Violations {
				k := v.Tag + "|" + v.Known
				perKey[k]++
				if perKey[k] > 3 {
					continue
				}
				found = append(found, foundViol{run: run, c: c, v: v})
			}
		}
	}
	if cases == 0 {
		fail2("no case was run")
	}
	// vacuity: required reach tags
	for _, run := range spec.Runs {
		if (run.Thorough && *tier != "thorough") || (*only != "" && run.Entry != *only) || *onlyCase >= 0 {
			continue
		}
		for _, tag := range run.Reach {
			if reach[run.Entry+":"+tag] == 0 {
				fail2(fmt.Sprintf("vacuous: %s never reached tag %q", run.Entry, tag))
			}
		}
	}
	// native replay of counterexamples
	newViol := 0
	knownSeen := map[string]bool{}
	if len(found) > 0 {
		byRun := map[string][]int{}
		for k := range found {
			f := &found[k]
			vec := makeVec(f.run.Entry, f.c, f.v)
			vec.Trace = ""
			f.file = filepath.Join(replayDir, fmt.Sprintf("%s-%d-%d.json", f.run.Entry, f.c, k))
			b, _ := json.MarshalIndent(vec, "", " ")
			os.WriteFile(f.file, b, 0o644)
			key := f.run.Rel + "|" + f.run.Dir
			byRun[key] = append(byRun[key], k)
		}
		if *noReplay {
			for _, f := range found {
				fmt.Printf("FOUND (not replayed) entry=%s case=%d tag=%s known=%q %v %s\n", f.run.Entry, f.c, f.v.Tag, f.v.Known, prettyInputs(f.v), f.v.Msg)
			}
			fail2("native replay skipped")
		} else {
			for _, idxs := range byRun {
				var files []string
				rep := 1
				for _, k := range idxs {
					files = append(files, found[k].file)
					if found[k].run.Repeat > rep {
						rep = found[k].run.Repeat
					}
				}
				results, out, err := nativeReplay(found[idxs[0]].run, files, rep)
				if err != nil {
					fail2("native replay failed: " + err.Error() + "\n" + lastLines(out, 30))
					continue
				}
				for _, k := range idxs {
					f := found[k]
					tracesValidated++
					if tagReproduced(f.v.Tag, results[f.file]) {
						if f.v.Known != "" {
							if !knownSeen[f.v.Known] {
								knownSeen[f.v.Known] = true
								fmt.Printf("KNOWN-FINDING: property=%s %s: %s (e.g. %s case %d %v)\n", id, f.v.Known, knownWhat[f.v.Known], f.run.Entry, f.c, prettyInputs(f.v))
							}
						} else {
							newViol++
							exit = 1
							fmt.Printf("VIOLATION property=%s replay=%s\n", id, f.file)
							fmt.Printf("  entry=%s case=%d assertion=%q inputs=%v observations=%v native-observations=%s\n", f.run.Entry, f.c, f.v.Tag, prettyInputs(f.v), f.v.Obs, nativeObs[f.file])
						}
					} else {
						fail2(fmt.Sprintf("engine/native disagreement: %s case %d tag %q inputs %v not reproduced natively (native failed=%v)",
							f.run.Entry, f.c, f.v.Tag, prettyInputs(f.v), results[f.file]))
					}
				}
			}
		}
	}
	var fl []string
	for f := range funcs {
		fl = append(fl, f)
	}
	sort.Strings(fl)
	var ks []string
	for k := range knownSeen {
		ks = append(ks, k)
	}
	sort.Strings(ks)
	sort.Strings(inconclusive)
	ev.Coverage = map[string]interface{}{
		"states":                        states,
		"transitions":                   transitions,
		"traces_validated_against_impl": tracesValidated,
		"samples":                       samples,
		"functions_encoded":             fl,
		"intercepted":                   intercepted,
		"bounds":                        spec.Bounds[*tier],
		"cases":                         caseList,
		"cases_run":                     cases,
		"assertions_checked":            asserts,
		"queries":                       queries,
		"queries_sat":                   qsat,
		"queries_unsat":                 qunsat,
		"queries_unknown":               qunk,
		"solver_time_s":                 solverTime.Seconds(),
		"solvers":                       []string{"z3 5.1.0 (z3-new -in)"},
		"reach_tags":                    reach,
		"inconclusive":                  inconclusive,
		"known_findings_seen":           ks,
		"ssa_instructions_executed":     steps,
		"init_warnings":                 initWarn,
		"rule":                          spec.Rule,
		"exhaustive":                    false,
	}
	ev.Violations = newViol
	ev.WallS = time.Since(t0).Seconds()
	if states == 0 {
		ev.Coverage["states"] = 0
	}
	if len(samples) == 0 {
		ev.Coverage["samples"] = []interface{}{"no path explored"}
	}
	b, _ := json.MarshalIndent(ev, "", " ")
	os.WriteFile(evPath, b, 0o644)
	if exit == 0 && len(inconclusive) > 0 {
		fmt.Printf("INCONCLUSIVE property=%s (%d reasons):\n", id, len(inconclusive))
		for k, in := range inconclusive {
			if k >= 15 {
				fmt.Printf("  … %d more\n", len(inconclusive)-k)
				break
			}
			fmt.Println("  " + in)
		}
		exit = 2
	}
	fmt.Printf("%s tier=%s: cases=%d paths=%d decisions=%d assertions=%d queries=%d (unknown %d) solver=%.1fs wall=%.1fs violations=%d known=%v exit=%d\n",
		id, *tier, cases, states, transitions, asserts, queries, qunk, solverTime.Seconds(), time.Since(t0).Seconds(), newViol, ks, exit)
	os.Exit(exit)
}

func writeEvidenceFail(ev evidence, path string, t0 time.Time, msg string) {
	ev.Coverage = map[string]interface{}{"states": 0, "transitions": 0, "traces_validated_against_impl": 0,
		"samples": []interface{}{msg}, "inconclusive": []string{msg}, "evaluations": 0, "distinct_nontrivial": 0}
	ev.WallS = time.Since(t0).Seconds()
	b, _ := json.MarshalIndent(ev, "", " ")
	os.WriteFile(path, b, 0o644)
}

func lastLines(s string, n int) string {
	lines := strings.Split(strings.TrimSpace(s), "\n")
	if len(lines) > n {
		lines = lines[len(lines)-n:]
	}
	return strings.Join(lines, "\n")
}

func seqCases(n int) func(string, int64) []int {
	return func(string, int64) []int {
		out := make([]int, n)
		for k := range out {
			out[k] = k
		}
		return out
	}
}

func tierCases(quick, thorough []int) func(string, int64) []int {
	return func(tier string, _ int64) []int {
		if tier == "thorough" {
			return thorough
		}
		return quick
	}
}

func rangeInts(lo, hi int) []int {
	var out []int
	for k := lo; k < hi; k++ {
		out = append(out, k)
	}
	return out
}
