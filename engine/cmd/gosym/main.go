package main

import (
	"encoding/json"
	"flag"
	"fmt"
	"os"
	"path/filepath"
	"runtime/pprof"
	"sort"
	"strings"

	"gosym/sym"
)

func main() {
	if len(os.Args) < 2 {
		fmt.Fprintln(os.Stderr, "usage: gosym run|check|replay ...")
		os.Exit(2)
	}
	switch os.Args[1] {
	case "run":
		cmdRun(os.Args[2:])
	case "check":
		cmdCheck(os.Args[2:])
	case "replay":
		cmdReplay(os.Args[2:])
	default:
		fmt.Fprintln(os.Stderr, "unknown command", os.Args[1])
		os.Exit(2)
	}
}

func cmdRun(args []string) {
	fs := flag.NewFlagSet("run", flag.ExitOnError)
	repo := fs.String("repo", "/repo", "repository directory")
	rel := fs.String("rel", ".", "package directory relative to repo")
	hdir := fs.String("harness", "/verif/harness/fiber", "harness source directory")
	entry := fs.String("entry", "", "entry function")
	caseID := fs.Int("case", 0, "case id")
	workers := fs.Int("workers", 0, "workers")
	trace := fs.Bool("trace", false, "trace instructions")
	maxPaths := fs.Int("maxpaths", 0, "path budget")
	steps := fs.Int64("steps", 0, "step budget per path")
	solver := fs.String("solver", "z3-new", "solver")
	prof := fs.String("cpuprofile", "", "write cpu profile")
	fs.Parse(args)
	if *prof != "" {
		f, _ := os.Create(*prof)
		pprof.StartCPUProfile(f)
		defer pprof.StopCPUProfile()
	}

	ov, err := sym.HarnessOverlay(*hdir, *repo, *rel)
	if err != nil {
		fmt.Fprintln(os.Stderr, err)
		os.Exit(2)
	}
	prog, err := sym.Load(sym.LoadConfig{RepoDir: *repo, Patterns: []string{"./" + *rel}, Overlay: ov})
	if err != nil {
		fmt.Fprintln(os.Stderr, err)
		os.Exit(2)
	}
	fmt.Fprintf(os.Stderr, "loaded in %v\n", prog.LoadTime)
	pkgPath := prog.Pkgs[0].Pkg.Path()
	res, err := prog.Explore(sym.RunOpts{PkgPath: pkgPath, Entry: *entry, Args: []int{*caseID}, Workers: *workers,
		Trace: *trace, MaxPaths: *maxPaths, StepBudget: *steps, Solver: *solver, TargetPkgs: []string{pkgPath}})
	if err != nil {
		fmt.Fprintln(os.Stderr, "error:", err)
		os.Exit(2)
	}
	fmt.Printf("paths=%d ok=%d infeasible=%d decisions=%d asserts=%d queries=%d (sat %d unsat %d unk %d) solver=%v model=%v wall=%v steps=%d funcsRun=%d\n",
		res.Paths, res.PathsOK, res.Infeasible, res.Decisions, res.Asserts, res.Queries, res.QSat, res.QUnsat, res.QUnknown, res.SolverTime, res.ModelTime, res.Wall, res.Steps, res.FuncsRun)
	fmt.Println("reach:", res.Reach)
	for _, w := range res.InitWarnings {
		fmt.Println("INITWARN:", w)
	}
	var un []string
	for k := range res.UninitReads {
		un = append(un, k)
	}
	sort.Strings(un)
	if len(un) > 0 {
		fmt.Println("uninit global reads:", strings.Join(un, " "))
	}
	seen := map[string]int{}
	for _, in := range res.Inconclusive {
		seen[in]++
	}
	for k, n := range seen {
		fmt.Printf("INCONCLUSIVE x%d: %s\n", n, k)
	}
	for k, v := range res.Violations {
		if k > 10 {
			break
		}
		fmt.Printf("VIOL tag=%s known=%q msg=%s model=%v named=%v\n", v.Tag, v.Known, v.Msg, v.Model, v.Named)
	}
	type kv struct {
		k string
		v int
	}
	var ds []kv
	for k, v := range res.DecSites {
		ds = append(ds, kv{k, v})
	}
	sort.Slice(ds, func(a, b int) bool { return ds[a].v > ds[b].v })
	for k, d := range ds {
		if k >= 12 {
			break
		}
		fmt.Printf("decisions %6d  %s\n", d.v, d.k)
	}
	var fsn []string
	for f := range res.FuncsSym {
		fsn = append(fsn, f)
	}
	sort.Strings(fsn)
	fmt.Println("funcs with symbolic operands:", len(fsn))
	_ = filepath.Join
}

// cmdReplay re-runs a stored counterexample against the real build of /repo's current tree.
// usage: gosym replay <PROP> <replay.json>; exit 1 (and a VIOLATION line) if the assertion fails again.
func cmdReplay(args []string) {
	if len(args) < 2 {
		fmt.Fprintln(os.Stderr, "usage: gosym replay <PROP> <replay.json>")
		os.Exit(2)
	}
	spec, ok := props[args[0]]
	if !ok {
		fmt.Fprintln(os.Stderr, "unknown property", args[0])
		os.Exit(2)
	}
	b, err := os.ReadFile(args[1])
	if err != nil {
		fmt.Fprintln(os.Stderr, err)
		os.Exit(2)
	}
	var vec struct {
		Entry string `json:"entry"`
		Tag   string `json:"tag"`
	}
	if err := json.Unmarshal(b, &vec); err != nil {
		fmt.Fprintln(os.Stderr, err)
		os.Exit(2)
	}
	for _, run := range spec.Runs {
		if run.Entry != vec.Entry {
			continue
		}
		rep := run.Repeat
		if rep < 1 {
			rep = 1
		}
		res, out, err := nativeReplay(run, []string{args[1]}, rep)
		if err != nil {
			fmt.Println(lastLines(out, 30))
			fmt.Fprintln(os.Stderr, "replay failed to run:", err)
			os.Exit(2)
		}
		failed := res[args[1]]
		fmt.Printf("entry=%s recorded-assertion=%q failed-natively=%v observations=%s\n", vec.Entry, vec.Tag, failed, nativeObs[args[1]])
		if tagReproduced(vec.Tag, failed) {
			fmt.Printf("VIOLATION property=%s replay=%s\n", args[0], args[1])
			os.Exit(1)
		}
		fmt.Println("not reproduced on the current tree")
		os.Exit(0)
	}
	fmt.Fprintln(os.Stderr, "no harness entry", vec.Entry, "in", args[0])
	os.Exit(2)
}
