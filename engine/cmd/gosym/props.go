package main

var props = map[string]PropSpec{}

func init() {
	props["SMOKE"] = PropSpec{
		ID: "SMOKE",
		Runs: []HarnessRun{
			{Rel: ".", Dir: "fiber", Entry: "VH_smoke_arith", Cases: seqCases(1), Reach: []string{"s150", "abc", "slash"}},
			{Rel: ".", Dir: "fiber", Entry: "VH_smoke_route", Cases: seqCases(1), Reach: []string{"ran", "notran"}},
		},
		Bounds: map[string]string{"quick": "smoke", "thorough": "smoke"},
	}
	c02quick := []int{}
	for _, pi := range []int{0, 1, 3, 7, 10, 11, 12, 14, 15, 17, 18, 19, 20, 21, 22, 23, 24} {
		c02quick = append(c02quick, 1000+pi*8+0)
	}
	for _, pi := range []int{0, 11, 16, 21, 13} {
		c02quick = append(c02quick, 1000+pi*8+3)
	}
	// thorough: every pattern but the 39-byte guid one (its full-length path does not finish within
	// the hour) under the four CaseSensitive x StrictRouting configurations; the UnescapePath
	// configurations multiply paths per byte on 11-byte symbolic paths (> 60 000 paths for one case)
	// and are exercised by C03 and C07 instead
	var c02all []int
	for pi := 0; pi < 27; pi++ {
		for ci := 0; ci < 4; ci++ {
			c02all = append(c02all, pi*8+ci)
		}
	}
	props["C02"] = PropSpec{
		ID: "C02",
		Runs: []HarnessRun{
			{Rel: ".", Dir: "fiber", Entry: "VH_C02_soundness", Cases: tierCases(c02quick, c02all), Reach: []string{"handler-ran", "handler-skipped"}, MaxPaths: 60000},
		},
		Bounds: map[string]string{
			"quick":    "22 (pattern,config) cases; request path fully symbolic at each listed length <= 7 bytes (and 11/12 bytes = the pattern text length for patterns 0, 11, 21); wire-safe printable ASCII without ?,#,%",
			"thorough": "27 patterns x 4 routing configs (CaseSensitive x StrictRouting); same path lengths; the guid constraint (39-byte path) is explored at the short lengths of the quick tier only; UnescapePath configurations are exercised by C03/C07, not here",
		},
		Assumptions: []string{
			"request path bytes are printable ASCII (0x21-0x7e) without '?', '#' ('%' only with UnescapePath), starting with a single '/' (fasthttp treats a leading // as authority)",
			"html.EscapeString stubbed as identity and a status-only ErrorHandler is configured: the 404 body text is not observed",
			"float/datetime/regex constraints are outside this harness (not symbolically interpretable)",
		},
	}
	var c03quick, c03all []int
	for pi := 0; pi < 31; pi++ {
		c03quick = append(c03quick, pi*8+(pi%4))
		if pi == 15 {
			c03quick = append(c03quick, pi*8) // "/*" also without StrictRouting
		}
		for ci := 0; ci < 4; ci++ {
			c03all = append(c03all, pi*8+ci)
		}
	}
	// UnescapePath: the client percent-encodes one byte of the path
	var c03unq, c03una []int
	for _, pi := range []int{1, 5, 8, 10, 17, 19} {
		c03unq = append(c03unq, pi*8+4+(pi%4))
		for ci := 4; ci < 8; ci++ {
			c03una = append(c03una, pi*8+ci)
		}
	}
	props["C03"] = PropSpec{
		ID: "C03",
		Runs: []HarnessRun{
			{Rel: ".", Dir: "fiber", Entry: "VH_C03_complete", Cases: tierCases(c03quick, c03all), Reach: []string{"matched"}, MaxPaths: 60000},
			{Rel: ".", Dir: "fiber", Entry: "VH_C03_complete", Cases: tierCases(c03unq, c03una), Reach: []string{"matched", "encoded"}, MaxPaths: 60000},
			{Rel: ".", Dir: "fiber", Entry: "VH_C03_rpm", Cases: tierCases(c03quick, c03all), Reach: []string{"ran", "not-ran"}, MaxPaths: 60000},
		},
		Bounds: map[string]string{
			"quick":    "31 delimited patterns (one routing config each, rotating over the 4 CaseSensitive x StrictRouting configs); every parameter value symbolic of length 0..2 (named and + >= 1); 6 patterns also with UnescapePath and one byte of the request path (any position but the first) percent-encoded; RoutePatternMatch vs dispatch on fully symbolic paths of the listed lengths (<= 14)",
			"thorough": "31 delimited patterns x 4 routing configs, 6 patterns x 4 UnescapePath configs, same value/path bounds",
		},
		Assumptions: []string{
			"values are printable ASCII without '?', '#', '%'; named values without '/'",
			"side condition of the statement read strictly: no additional occurrence (case-folded when case-insensitive) of a literal that follows a parameter, nor of that literal without its trailing slashes",
			"UnescapePath: exactly one percent-encoded byte (upper-case hex digits); RoutePatternMatch is not compared under UnescapePath",
			"html.EscapeString and fasthttp.normalizePath stubbed (404 text / normalised path not observed by the router)",
		},
	}
	var c01quick, c01all []int
	for ti := 0; ti < 19; ti++ {
		c01quick = append(c01quick, ti*16+(ti%4))
		for ci := 0; ci < 4; ci++ {
			c01all = append(c01all, ti*16+ci, ti*16+8+ci)
		}
	}
	c01quick = append(c01quick, 0*16+8, 2*16+8+1, 5*16+8, 6*16+8+2)
	props["C01"] = PropSpec{
		ID: "C01",
		Runs: []HarnessRun{
			{Rel: ".", Dir: "fiber", Entry: "VH_C01_dispatch", Cases: tierCases(c01quick, c01all), Reach: []string{"handled", "404", "405"}, MaxPaths: 60000},
		},
		Bounds: map[string]string{
			"quick":    "19 route tables (<= 5 registrations: literal/param/optional/star routes, Use prefixes, groups, duplicates, rewrite and method-override middleware, multi-handler and multi-method registrations followed by same-path neighbours, escaped pattern characters, non-ASCII first segment), one routing config each + 4 custom-context cases; request method from the table's list, path fully symbolic at the listed lengths (<= 7)",
			"thorough": "19 tables x 4 routing configs x {default, custom context}",
		},
		Assumptions: []string{
			"request path bytes printable ASCII without '?', '#', '%' (table 13: any byte > 0x20 except DEL), single leading '/'",
			"per-route matching (Route.match) is taken as given, on the route object each registration produces alone in a fresh app: this property is about order, merging of neighbours, index transparency, overrides and 404/405",
			"html.EscapeString and fasthttp.normalizePath stubbed (404 text / normalised path not observed by the router)",
		},
	}
	props["C09"] = PropSpec{
		ID: "C09",
		Runs: []HarnessRun{
			{Rel: ".", Dir: "fiber", Entry: "VH_C09_sort", Cases: tierCases([]int{2, 3}, []int{2, 3, 4}), Reach: []string{"sorted"}, MaxPaths: 100000},
			{Rel: ".", Dir: "fiber", Entry: "VH_C09_ranges", Cases: tierCases([]int{1, 2, 3, 4}, []int{1, 2, 3, 4, 5, 6}), Reach: []string{"split"}, MaxPaths: 100000},
			{Rel: ".", Dir: "fiber", Entry: "VH_C09_offer", Cases: tierCases([]int{0, 1, 4, 8, 9, 12, 17}, []int{0, 1, 4, 5, 8, 9, 12, 13, 16, 17}), Reach: []string{"some", "none"}, MaxPaths: 100000},
			{Rel: ".", Dir: "fiber", Entry: "VH_C09_format", Cases: tierCases([]int{0, 1, 2, 3}, []int{0, 1, 2, 3}), Reach: []string{"negotiated", "not-acceptable"}, MaxPaths: 100000},
		},
		Bounds: map[string]string{
			"quick":    "sortAcceptedTypes: 2..3 entries with symbolic quality (any non-negative non-NaN float64), symbolic specificity 1..4, 0..2 parameters; forEachMediaRange: every byte string of length 1..4; getOffer end-to-end: 4 offer lists x 1 templated range, 2 of them x 2 ranges (5 media ranges, optional parameter, q absent/0/1/0.D with symbolic digit, optional space around commas); Format with the default entry at every list position against Accept headers built from two q-valued ranges and an optional third",
			"thorough": "sort up to 4 entries; media-range splitter up to 6 bytes; all 4 offer lists x 1..2 templated ranges",
		},
		Assumptions: []string{
			"quality values are compared through their IEEE-754 bit patterns (order-isomorphic for non-negative, non-NaN doubles); no float arithmetic is sent to the solver; ParseUfloat runs on concretised digits",
			"end-to-end negotiation only for headers of the stated template; other headers are covered for splitting (harness 2) only",
			"acceptsOffer (charset/encoding/language matching) is taken as given",
		},
	}
	var c08quick, c08all []int
	for ti := 0; ti < 11; ti++ {
		c08quick = append(c08quick, ti*4+(ti%4))
		for k := 0; k < 4; k++ {
			c08all = append(c08all, ti*4+k)
		}
	}
	c08quick = append(c08quick, 0*4+1, 2*4+0, 3*4+0, 5*4+3, 10*4+1)
	props["C08"] = PropSpec{
		ID: "C08",
		Runs: []HarnessRun{
			{Rel: ".", Dir: "fiber", Entry: "VH_C08_errors", Cases: tierCases(c08quick, c08all), Reach: []string{"default-handler", "custom-handler"}, MaxPaths: 100000, Repeat: 40},
		},
		Bounds: map[string]string{
			"quick":    "10 mount trees (sibling prefixes that are string prefixes of one another, nesting up to 3, inside-out and outside-in mounting, apps with/without own handler), one error kind each (+4 extra): framework 404, *fiber.Error 418, plain error, failing handler; request path fully symbolic at the listed lengths (<= 7); every iteration order of the mounted-app map",
			"thorough": "10 trees x 4 error kinds",
		},
		Assumptions: []string{
			"request path printable ASCII without '?', '#', '%', single leading '/'; prefix comparison is byte-wise (no case folding is claimed)",
			"map iteration order inside App.ErrorHandler is a solver-enumerated decision (all orders); native replay repeats 40 times to hit an order-dependent witness",
		},
	}
	var c04quick, c04all []int
	for ti := 0; ti < 11; ti++ {
		c04quick = append(c04quick, ti*4+(ti%4))
		for k := 0; k < 4; k++ {
			c04all = append(c04all, ti*4+k)
		}
	}
	c04quick = append(c04quick, 6*4+1, 6*4+3, 3*4+2, 0*4+3, 2*4+0, 1*4+0, 100+6*4+3, 100+3*4+2, 100+0*4+1, 100+9*4+1, 100+9*4+2)
	for ti := 0; ti < 11; ti++ {
		for k := 1; k < 4; k++ {
			c04all = append(c04all, 100+ti*4+k)
		}
	}
	props["C04"] = PropSpec{
		ID: "C04",
		Runs: []HarnessRun{
			{Rel: ".", Dir: "fiber", Entry: "VH_C04_mount", Cases: tierCases(c04quick, c04all), Reach: []string{"handlers-ran", "nothing-ran"}, MaxPaths: 100000},
		},
		Bounds: map[string]string{
			"quick":    "11 composition trees (mount before/after sibling routes, nested mount, mount from a group, '/' and trailing-slash prefixes, children spelled without a leading slash, parameterised prefix, sub-app '/*', upper-case paths), one routing config each (+4), each built three ways: real mounting, groups, flat full paths; request method from the tree's list, path fully symbolic at the listed lengths (<= 8)",
			"thorough": "11 trees x 4 routing configs (CaseSensitive x StrictRouting, shared by parent and sub-apps)",
		},
		Assumptions: []string{
			"sub-apps use either the parent's routing configuration or the default one (cases >= 100); the group world always uses the parent's",
			"the group world registers each sub-app route under the path the sub-app records for it (\"\" means \"/\")",
			"request path printable ASCII without '?', '#', '%', single leading '/'",
		},
	}
	var c19quick, c19all []int
	for ci := 0; ci < 8; ci++ {
		c19quick = append(c19quick, ci*4+0, ci*4+1)
		for k := 0; k < 4; k++ {
			c19all = append(c19all, ci*4+k)
		}
	}
	c19quick = append(c19quick, 0*4+2, 0*4+3, 4*4+3, 2*4+3)
	props["C19"] = PropSpec{
		ID: "C19",
		Runs: []HarnessRun{
			{Rel: "middleware/cors", Dir: "cors", Entry: "VH_C19_cors", Cases: tierCases(c19quick, c19all), Reach: []string{"acao-set", "acao-absent", "preflight"}, MaxPaths: 100000, ExtraPkgs: []string{"github.com/gofiber/fiber/v3"}},
		},
		Bounds: map[string]string{
			"quick":    "8 configurations (exact entries, wildcard-subdomain entries with/without port, '*', AllowOriginsFunc, credentials, private network, max age, headers); Origin = scheme (http|https) '://' host with host a symbolic string of every length 1..maxHost (<= 9) over [a-z0-9.:-] (first byte may be upper case), plus 'null' and absent; simple GET and preflight for every config, bare OPTIONS / null origin for four",
			"thorough": "8 configurations x {simple, preflight, OPTIONS without request-method, null/absent origin}",
		},
		Assumptions: []string{
			"serialized origins only (scheme://host[:port]); upper case only in the first host byte (strings.ToLower forks per byte)",
			"configurations that panic at construction are not part of the catalogue",
			"a wildcard entry is required to match a non-empty left label (the empty-label origin scheme://.domain is not demanded either way)",
		},
	}
	var c10quick, c10all []int
	for ci := 0; ci < 17; ci++ {
		c10quick = append(c10quick, ci*4+(ci%4))
		for k := 0; k < 4; k++ {
			c10all = append(c10all, ci*4+k)
		}
	}
	c10quick = append(c10quick, 6*4+0, 7*4+0, 3*4+3, 8*4+3, 2*4+1, 14*4+3)
	props["C10"] = PropSpec{
		ID: "C10",
		Runs: []HarnessRun{
			{Rel: ".", Dir: "fiber", Entry: "VH_C10_trust", Cases: tierCases(c10quick, c10all), Reach: []string{"trusted", "untrusted"}, MaxPaths: 100000},
			{Rel: ".", Dir: "fiber", Entry: "VH_C10_list", Cases: tierCases([]int{0, 1, 2}, []int{0, 1, 2, 3}), Reach: []string{"listed"}, MaxPaths: 100000},
		},
		Bounds: map[string]string{
			"quick":    "17 proxy configurations (two of them taken from another application's Config(); empty set, single v4 and v6 address, CIDR /8 /24 /31, v6 /32, each class flag, combinations, IP validation, v4-mapped and v6 peers), one forwarding-header family each (+6): peer address fully symbolic (4 bytes; v6: 4 symbolic bytes of a 16-byte address), forwarded value a symbolic string of length 1..3; validated client IP from a list: an invalid symbolic entry (1..3 bytes over [0-9a-f.:]) followed by a valid v4 or v6 entry",
			"thorough": "17 configurations x 4 header families; list harness x 2 separators x 2 families",
		},
		Assumptions: []string{
			"TrustProxy is enabled in every case; TLS off (scheme of the connection is http)",
			"forwarded header values are printable ASCII, length <= 3; exactly one scheme-bearing header family per request",
			"v6 peers: bytes 3..14 fixed, so only prefixes/classes decided by the first bytes are exercised",
		},
	}
	props["C12"] = PropSpec{
		ID: "C12",
		Runs: []HarnessRun{
			{Rel: ".", Dir: "fiber", Entry: "VH_C12_roundtrip", Cases: tierCases([]int{0, 1, 2}, []int{0, 1, 2, 3}), Reach: []string{"roundtrip"}, MaxPaths: 100000},
			{Rel: ".", Dir: "fiber", Entry: "VH_C12_hostile", Cases: tierCases([]int{1, 2, 3, 4}, []int{1, 2, 3, 4, 5, 6, 7}), Reach: []string{"malformed", "wellformed"}, MaxPaths: 200000},
			{Rel: ".", Dir: "fiber", Entry: "VH_C12_exchange", Cases: tierCases([]int{1}, []int{1}), Reach: []string{"exchange"}, MaxPaths: 100000},
			{Rel: ".", Dir: "fiber", Entry: "VH_C12_entry", Cases: tierCases([]int{0, 1, 2, 3, 4, 5, 6, 10, 12}, []int{0, 1, 2, 3, 4, 5, 6, 10, 11, 12, 13, 14, 15, 16}), Reach: []string{"entry"}, MaxPaths: 1000},
			{Rel: ".", Dir: "fiber", Entry: "VH_C12_mixed", Cases: tierCases([]int{0, 1, 2, 4, 5, 6}, []int{0, 1, 2, 3, 4, 5, 6, 7}), Reach: []string{"mixed"}, MaxPaths: 100000, ExtraPkgs: []string{"github.com/gofiber/fiber/v3/binder"}},
		},
		Bounds: map[string]string{
			"quick":    "round trip of 0..2 messages with symbolic key/value (length 0..2, all bytes), level and old-input flag into a dirty reused target; hostile cookie: every byte string of length 1..4 (minus ';', space, '\"') with an allocation budget of 64*len+512 bytes; issue/present/expire/absent exchange with 1 message at the fasthttp API level; the same exchange for one concrete message with the follow-up request parsed from wire bytes and served by the real request handler, for each of 7 methods (and GET, POST with a custom context); a redirect carrying one message (key 1 letter, value 0..2 letters) and the old input of one query field (name 1 letter, value 0..2 letters) in both call orders, the message key possibly equal to the field name",
			"thorough": "up to 3 messages, hostile cookies up to 7 bytes (the exchange with 2 fully symbolic messages exceeds 800 000 paths and is outside)",
		},
		Assumptions: []string{
			"the exchange harness hands the issued cookie value back through fasthttp's header API (no wire serialisation); wire-safety of the value is a separate assertion and a known finding (C12-K1)",
			"in the roundtrip/hostile/exchange/mixed harnesses flash parsing is invoked directly (RawHeaders is only filled by wire parsing); VH_C12_entry parses the follow-up request from wire bytes (one concrete message, 7 methods) and serves it through App.Handler()",
			"WithInput is exercised for query input only (map target through the type-inspection reflect bridge); form and multipart input outside",
		},
	}
	props["C05"] = PropSpec{
		ID: "C05",
		Runs: []HarnessRun{
			{Rel: ".", Dir: "fiber", Entry: "VH_C05_isolation", Cases: tierCases([]int{0, 2, 4, 6, 8, 10, 12, 14, 16, 18, 1, 13}, rangeInts(0, 20)), Reach: []string{"compared"}, MaxPaths: 100000},
		},
		Bounds: map[string]string{
			"quick":    "1 preceding request (2 for two cases) on a pooled context, performing one of 9 operations (a legitimate flash cookie followed by a probe that itself carries 1..3 crafted cookie bytes, Bind auto-handling, redirect state, ViewBind, response header+status, BaseURL, handler error, flash cookie of 1..3 arbitrary bytes, handler panic) with symbolic route parameters, followed by a probe (with/without a symbolic parameter) whose 15 observations are compared with the same probe on a fresh app",
			"thorough": "all 8 operations x {1, 2} preceding requests",
		},
		Assumptions: []string{
			"each request gets a fresh fasthttp.RequestCtx: only fiber-owned pooled state (DefaultCtx, Redirect) is in scope; fasthttp's own recycling is assumed correct",
			"sync.Pool reuse is LIFO (the probe receives the context released by the preceding request); a fresh context is the reference world",
			"concurrent use of one context and state the application shares on purpose are outside",
		},
	}
	c06all := rangeInts(0, 24)
	for _, k := range []int{0, 3, 4, 5, 9, 11} {
		c06all = append(c06all, 100+k)
	}
	props["C06"] = PropSpec{
		ID: "C06",
		Runs: []HarnessRun{
			{Rel: ".", Dir: "fiber", Entry: "VH_C06_immutable", Cases: tierCases(c06all, c06all), Reach: []string{"checked"}, MaxPaths: 100000},
		},
		Bounds: map[string]string{
			"quick":    "24 accessors (Params, generic Params, Path, OriginalURL, Protocol, Query, Queries, Get, GetReqHeaders, Cookies, Host, Hostname, Host / Hostname from X-Forwarded-Host (list, port), Subdomains, Body, Body with an unsupported Content-Encoding, BodyRaw, BaseURL, Method, Route().Path, IP from the proxy header with and without validation, IPs) with Immutable on: request 1 has symbolic parameter/query/header/cookie/body tokens, then a second fully symbolic request is served on the same fasthttp.RequestCtx and pooled context and the kept value must still equal what request 1 contained; 6 accessors with Immutable off (correct inside the handler)",
			"thorough": "same as quick",
		},
		Assumptions: []string{
			"tokens are 2-3 bytes over [A-Za-z0-9_-] so that no escaping/normalisation applies; the second request has the same token lengths (it overwrites the same buffer positions)",
			"string fields filled by Bind() into structs (reflection decoders), IP/IPs, FormValue/multipart are outside",
		},
	}
	props["C07"] = PropSpec{
		ID: "C07",
		Runs: []HarnessRun{
			{Rel: ".", Dir: "fiber", Entry: "VH_C07_total", Cases: tierCases(rangeInts(0, 13), rangeInts(0, 13)), Reach: []string{"returned"}, MaxPaths: 200000},
			{Rel: ".", Dir: "fiber", Entry: "VH_C07_inject", Cases: tierCases([]int{0, 1, 2, 3, 4, 5, 6, 7, 8, 9, 10, 11, 13, 14, 15}, []int{0, 1, 2, 3, 4, 5, 6, 7, 8, 9, 10, 11, 13, 14, 15}), Reach: []string{"serialised"}, MaxPaths: 100000},
			{Rel: ".", Dir: "fiber", Entry: "VH_C07_guard", Cases: seqCases(4), Reach: []string{"handled", "rejected"}, MaxPaths: 100000},
			{Rel: ".", Dir: "fiber", Entry: "VH_C07_path", Cases: tierCases([]int{0, 4, 7}, []int{0, 1, 2, 3, 4, 5, 6, 7}), Reach: []string{"returned"}, MaxPaths: 200000},
		},
		Bounds: map[string]string{
			"quick":    "totality: 13 accessor groups (Accepts*, Range, IPs/IP, Subdomains/Hostname, Fresh, Is, Cookies) on header values of every length 1..3/4/5 (Range, Cache-Control: 8) over the bytes fasthttp admits (decimal digits restricted to 0/1 in Accept*/Range, 7-bit bytes for Host); injection: 15 response-helper sinks with an arbitrary 1..3 byte argument (any byte incl. CR, LF, NUL) serialised by fasthttp's real header writer; entry guard: symbolic method of 1..5 bytes against the default and a custom method set. Allocation of the flash decoder is covered by C12's hostile-cookie harness.",
			"thorough": "same as quick",
		},
		Assumptions: []string{
			"bytes -> fasthttp.Request wire parsing, multipart, keep-alive and decompressors are outside; requests enter through fasthttp's header/URI setters",
			"'well-formed reply' is reduced to: the serialised header block has the same number of lines as for a benign argument of the same length",
			"a panic anywhere in the accessor (an implicit obligation of the engine: bounds, nil, division, type assertion) is the violation of the totality slice",
		},
	}
	lim := []string{"github.com/gofiber/fiber/v3", "github.com/gofiber/fiber/v3/internal/memory"}
	props["C13"] = PropSpec{
		ID: "C13",
		Runs: []HarnessRun{
			{Rel: "middleware/limiter", Dir: "limiter", Entry: "VH_C13_sequential", Cases: tierCases([]int{0, 9, 16, 25, 2, 20}, []int{0, 1, 2, 3, 4, 5, 8, 9, 10, 12, 16, 17, 18, 20, 24, 25, 26, 28}), Reach: []string{"admitted", "rejected"}, MaxPaths: 200000, ExtraPkgs: lim},
			{Rel: "middleware/limiter", Dir: "limiter", Entry: "VH_C13_concurrent", Cases: tierCases([]int{0, 4, 12, 5, 7, 13}, []int{0, 1, 2, 3, 4, 5, 6, 7, 8, 12, 13, 14, 15}), Reach: []string{"joined"}, MaxPaths: 200000, ExtraPkgs: lim, Repeat: 10},
		},
		Bounds: map[string]string{
			"quick":    "fixed and sliding window, memory and external (stub) storage, skip options: histories of 3 requests over 2 keys, inter-arrival gaps 0..Expiration+1 s (solver-enumerated), per-request MaxFunc limit symbolic in 1..3, handler outcome symbolic; Expiration 2-3 s; concurrent: 2 requests (3 in thorough) on one key with limit 1..2, every interleaving at lock acquisition / storage / handler boundaries",
			"thorough": "all algorithm x storage x skip combinations listed; 3 concurrent requests",
		},
		Assumptions: []string{
			"one virtual clock (seconds): utils.Timestamp and the stub storage read it; gaps are whole seconds",
			"the sliding-window weight is the float formula of the implementation evaluated on small concrete operands (rounding at scale outside)",
			"external storage = a correct TTL store on the virtual clock",
		},
	}
	idem := []string{"github.com/gofiber/fiber/v3", "github.com/gofiber/fiber/v3/internal/storage/memory"}
	props["C17"] = PropSpec{
		ID: "C17",
		Runs: []HarnessRun{
			{Rel: "middleware/idempotency", Dir: "idempotency", Entry: "VH_C17_concurrent", Cases: tierCases([]int{0, 16, 32, 2, 3, 8, 12, 13}, []int{0, 16, 32, 1, 2, 3, 8, 24, 9, 10, 11, 12, 13}), Reach: []string{"joined"}, MaxPaths: 300000, ExtraPkgs: idem, Repeat: 3},
		},
		Bounds: map[string]string{
			"quick":    "2 concurrent POST requests (3 for the lock-fault case) with the same idempotency key (last one optionally another key / no key), real MemoryLock or a distributed-lock stub, storage stub with/without injected lookup (Get) faults, lock faults; every interleaving at storage / locker / handler boundaries",
			"thorough": "2 and 3 concurrent requests for every lock x fault combination",
		},
		Assumptions: []string{
			"Bind().RespHeader into map[string][]string is replaced by 'collect the response headers' (the reflection binder is not interpretable)",
			"the external lock is modelled as: Lock may fail, Unlock releases the key whoever calls it",
			"3-thread cases explore schedules with at most 2 preemptions (a thread that could continue is switched out at most twice)",
			"lifetime/expiry of stored responses is not exercised (no time advance)",
		},
	}
	props["C20"] = PropSpec{
		ID: "C20",
		Runs: []HarnessRun{
			{Rel: "middleware/encryptcookie", Dir: "encryptcookie", Entry: "VH_C20_cookies", Cases: tierCases([]int{0, 1, 2, 4, 6, 8, 10, 12}, rangeInts(0, 14)), Reach: []string{"authentic", "tampered"}, MaxPaths: 200000, ExtraPkgs: []string{"github.com/gofiber/fiber/v3"}},
		},
		Bounds: map[string]string{
			"quick":    "16- and 32-byte keys; plaintext a symbolic cookie-safe string of length 0..2; the returned value is the issued one unchanged / with one character (first, middle, last two positions) replaced by a symbolic byte / truncated by 1, 4 or len-4 / extended / issued under another key / an arbitrary string of length 0..3; an excepted cookie and, for one case, a forged plain cookie before or after plus an invalid cookie in front",
			"thorough": "every tamper kind with both key lengths",
		},
		Assumptions: []string{
			"AES-GCM is replaced by an ideal AEAD in the engine (distinct concrete ciphertext bytes per Seal; Open succeeds only for recorded (key, nonce, ciphertext)); cryptographic strength, nonce uniqueness and timing are outside",
			"crypto/rand yields distinct concrete bytes per call (a symbolic ciphertext makes base64 round trips intractable for the solver)",
			"natively (replay) the real cipher runs: inputs are mutation descriptors applied to the value issued at run time",
		},
	}
	var c16quick, c16all []int
	for ci := 0; ci < 9; ci++ {
		for k := 0; k < 4; k++ {
			c16all = append(c16all, ci*8+k) // token lifecycle, origin absent / null
		}
		for k := 4; k < 8; k++ {
			c16all = append(c16all, 100+ci*8+k) // origin policy
		}
	}
	c16quick = []int{0*8 + 0, 3*8 + 1, 4*8 + 0, 5*8 + 2, 6*8 + 0, 7*8 + 1, 8*8 + 0, 100 + 1*8 + 7, 100 + 2*8 + 4, 100 + 2*8 + 7}
	csrfPkgs := []string{"github.com/gofiber/fiber/v3", "github.com/gofiber/fiber/v3/internal/memory", "github.com/gofiber/fiber/v3/middleware/session", "github.com/gofiber/fiber/v3/internal/storage/memory"}
	props["C16"] = PropSpec{
		ID: "C16",
		Runs: []HarnessRun{
			{Rel: "middleware/csrf", Dir: "csrf", Entry: "VH_C16_unsafe", Cases: tierCases(c16quick, c16all), Reach: []string{"reached", "rejected"}, MaxPaths: 300000, ExtraPkgs: csrfPkgs},
		},
		Bounds: map[string]string{
			"quick":    "9 configurations (no/exact/wildcard trusted origins, SingleUseToken, external storage with lookup faults, session-backed tokens, CookieSessionOnly); history: safe request issues a token, time gap 0..12 s against IdleTimeout 10 s, optional earlier use, then an unsafe request whose cookie/header token is none / the issued one / forged, with Origin absent / null / scheme://host[:8443] (host symbolic, 4..6 bytes) or a Referer scheme://host[:8443]/path (host 4..6, path 0..5 symbolic bytes), on http or https",
			"thorough": "all 9 configurations x 4 origin kinds x {http, https}",
		},
		Assumptions: []string{
			"header extractor (default); tokens are generated by a counter-based KeyGenerator (utils.UUIDv4 needs crypto/rand)",
			"session-backed token storage runs on the session Store API with the table codec in place of encoding/gob; the client keeps the session cookie",
			"host and path bytes over [a-z0-9.-]",
			"soundness direction only: the handler is reached only if the oracle admits (rejections of admissible requests are not flagged)",
		},
	}
	cachePkgs := []string{"github.com/gofiber/fiber/v3", "github.com/gofiber/fiber/v3/internal/memory"}
	props["C14"] = PropSpec{
		ID: "C14",
		Runs: []HarnessRun{
			{Rel: "middleware/cache", Dir: "cache", Entry: "VH_C14_heap", Cases: tierCases(rangeInts(0, 16), rangeInts(0, 16)), Reach: []string{"put", "remove"}, MaxPaths: 200000, ExtraPkgs: cachePkgs},
			{Rel: "middleware/cache", Dir: "cache", Entry: "VH_C14_sequential", Cases: tierCases([]int{0, 5, 10, 15, 16, 27}, rangeInts(0, 32)), Reach: []string{"hit", "miss"}, MaxPaths: 400000, ExtraPkgs: cachePkgs, Repeat: 1},
			{Rel: "middleware/cache", Dir: "cache", Entry: "VH_C14_concurrent", Cases: tierCases([]int{1, 3, 5, 7, 11, 15}, rangeInts(0, 16)), Reach: []string{"joined"}, MaxPaths: 200000, ExtraPkgs: cachePkgs, Repeat: 3},
		},
		Bounds: map[string]string{
			"quick":    "indexedHeap: one put / remove(idx) / removeFirst from every valid state with <= 3 slots (any idx permutation, symbolic expirations in heap order, arbitrary stale index cells); sequential: 3 requests over 2 keys x {GET, POST} x {none, no-cache, no-store} x 5 origin statuses x symbolic body (0..2 bytes) with gaps 0..3 s against Expiration 2 s, invalidator, MaxBytes 3, StoreResponseHeaders, memory store / external-store stub; concurrent: 2 requests (same / different key) after an expired entry with MaxBytes eviction, every interleaving at storage / origin / blocking-lock boundaries; two of the sequential cases with a custom KeyGenerator and an ExpirationGenerator (1 s for one key, 3 s for the others); all requests of a sequential history are served on one recycled fasthttp.RequestCtx and the origin sets a Content-Encoding",
			"thorough": "all 16 sequential and 16 concurrent configurations (incl. an invalidator firing for both concurrent requests)",
		},
		Assumptions: []string{
			"the cache's coarse timestamp goroutine is woken by every advance of the virtual clock (engine); natively the replay really sleeps",
			"the heap invariant used for the inductive step: heap order on exp, indices[] inverse to the live entries' idx, idx values of live and parked slots a permutation of 0..maxidx-1",
			"ExpirationGenerator, custom KeyGenerator and Next are not exercised",
		},
	}
	props["C18"] = PropSpec{
		ID: "C18",
		Runs: []HarnessRun{
			{Rel: "client", Dir: "client", Entry: "VH_C18_jar", Cases: tierCases([]int{1, 2, 12, 22, 42}, []int{1, 2, 12, 22, 32, 42}), Reach: []string{"checked"}, MaxPaths: 400000},
			{Rel: "client", Dir: "client", Entry: "VH_C18_assembly", Cases: seqCases(3), Reach: []string{"assembled"}, MaxPaths: 100000, Repeat: 60},
			{Rel: "client", Dir: "client", Entry: "VH_C18_handoff", Cases: seqCases(2), Reach: []string{"B-done"}, MaxPaths: 300000, Repeat: 40},
		},
		Bounds: map[string]string{
			"quick":    "cookie jar: histories of 1..2 operations (Set, or a response's Set-Cookie parsed for a request host/path) over 2 hosts x 2 names x paths {/, /a, /a/b, /ab} x {no expiry, expired, future expiry} with a symbolic value byte; after every step Get is checked for both hosts x 4 request paths; plus 2-operation histories of responses whose Set-Cookie is pathless or names \"/\", served for request path / or /a",
			"thorough": "jar histories of 1-2 operations in all three modes (lookup after every operation, only at the end, shared URI object); 3-operation histories exceed 400 000 paths and are outside",
		},
		Assumptions: []string{
			"expiry instants are far in the past / future (independent of the clock)",
			"path matching = plain string prefix, as the statement says",
		},
	}
	sessPkgs := []string{"github.com/gofiber/fiber/v3", "github.com/gofiber/fiber/v3/internal/storage/memory"}
	props["C15"] = PropSpec{
		ID: "C15",
		Runs: []HarnessRun{
			{Rel: "middleware/session", Dir: "session", Entry: "VH_C15_store", Cases: tierCases([]int{0, 2, 4, 8}, []int{0, 2, 4, 8, 10, 12}), Reach: []string{"resumed", "fresh", "expired", "old-id-checked", "second-get"}, MaxPaths: 600000, ExtraPkgs: sessPkgs},
			{Rel: "middleware/session", Dir: "session", Entry: "VH_C15_mw", Cases: tierCases([]int{0, 2, 4, 9}, []int{0, 1, 2, 3, 4, 5, 8, 9, 10, 12}), Reach: []string{"resumed", "fresh", "expired", "abs-expired", "old-id-checked", "told"}, MaxPaths: 600000, ExtraPkgs: sessPkgs},
		},
		Bounds: map[string]string{
			"quick":    "Store API histories of 2 (one case 3) steps: each step presents no id / an id issued earlier / a forged id through cookie, header or query, checks what the session shows, performs read / set(k, symbolic value) / delete / destroy / regenerate / reset, saves, and advances the virtual clock by 0, 3 or 5 s against IdleTimeout 4 s (one 3-step case with AbsoluteTimeout 5 s, reached by two gaps of 3 s); store API: a second destroy/regenerate/reset after the save in the same request; middleware: auto-save, and the id in Set-Cookie / response header equals the session's id",
			"thorough": "store API: 2 steps for every source, with and without absolute timeout (3-step store histories exceed 600 000 paths: outside); middleware: 2 and 3 steps for every source, with and without absolute timeout",
		},
		Assumptions: []string{
			"encoding/gob (reflection) is replaced by a table-backed codec that keeps gob's observable behaviour: encode snapshots the map, decode merges into the target map, unknown bytes fail",
			"counter-based KeyGenerator (utils.UUIDv4 needs crypto/rand); internal/storage/memory on the virtual clock",
					},
	}
	c11Pkgs := []string{"github.com/gofiber/fiber/v3", "github.com/gofiber/fiber/v3/binder"}
	props["C11"] = PropSpec{
		ID: "C11",
		Runs: []HarnessRun{
			{Rel: "client", Dir: "client", Entry: "VH_C11_roundtrip", Cases: tierCases([]int{0, 1, 2, 3, 8, 9, 16}, []int{0, 1, 2, 3, 8, 9, 10, 11, 16, 17, 18, 19, 24, 25, 26, 27}), Reach: []string{"bound"}, MaxPaths: 300000, ExtraPkgs: c11Pkgs},
			{Rel: "client", Dir: "client", Entry: "VH_C11_select", Cases: tierCases([]int{0, 1, 2}, []int{0, 1, 2}), Reach: []string{"decoded"}, MaxPaths: 100000, ExtraPkgs: c11Pkgs},
			{Rel: "client", Dir: "client", Entry: "VH_C11_walker", Cases: tierCases([]int{0, 4, 8, 12, 2, 15}, []int{0, 4, 8, 12, 2, 6, 10, 14, 3, 7, 11, 15}), Reach: []string{"walked"}, MaxPaths: 300000, ExtraPkgs: c11Pkgs},
			{Rel: "client", Dir: "client", Entry: "VH_C11_total", Cases: tierCases([]int{0, 1, 2, 3, 4, 8, 9}, []int{0, 1, 2, 3, 4, 8, 9, 10, 11, 12}), Reach: []string{"accepted", "rejected"}, MaxPaths: 300000, ExtraPkgs: c11Pkgs},
		},
		Bounds: map[string]string{
			"quick":    "client struct walker (SetValWithStruct through SetParamsWithStruct / SetCookiesWithStruct / SetFormDataWithStruct): one struct with uint8, int8, uint64, int64, string, []string, []uint8, bool, unexported and untagged fields; one numeric field symbolic at a time (uint8 in 0..40 or 216..255, int8 in -30..30), 64-bit fields from a menu of extremes, strings of 0..2 symbolic bytes; round trip: keys ka (two values, 0..2 and 0..1 symbolic bytes) and kb (0..1 bytes) through query, urlencoded form, header and cookie, splitting off/on, map[string][]string and map[string]string targets; body dispatch json/xml/cbor with a 0..3-byte payload; totality: arbitrary query (0..5 bytes), form body (0..5), Cookie header (0..5), Content-Type (0..5 seven-bit bytes), header value (0..4)",
			"thorough": "all source x splitting x target combinations",
		},
		Assumptions: []string{
			"the server's schema decoder (string -> typed field, reflection that builds and sets values) is not executed: the server binds into map targets, for which binder.parse/equalFieldType run as real code over the engine's reflect bridge; the client's struct walker runs as real code over the same bridge (read-only value inspection), its output is compared with canonical decimal / boolean / verbatim text, not with what the server decodes",
			"json/xml/cbor codecs are replaced by harness marshal/decoder functions (Config.JSONDecoder etc.); multipart bodies outside",
			"header values: visible bytes without leading/trailing blank; cookie values: RFC 6265 cookie-octets (HTTP cannot carry others verbatim)",
		},
	}
	props["SMOKEFAIL"] = PropSpec{
		ID: "SMOKEFAIL",
		Runs: []HarnessRun{
			{Rel: ".", Dir: "fiber", Entry: "VH_smoke_fail", Cases: seqCases(1)},
		},
		Bounds: map[string]string{"quick": "smoke", "thorough": "smoke"},
	}
}
